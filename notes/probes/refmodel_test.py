import datetime as dt, re, subprocess
import refmodel as rm
from bumpver import v2version
# README `bumpver test` examples: (old, pattern, kwargs, date, expected or None)
D = dt.date
EX = [
 ("1.2.3","MAJOR.MINOR.PATCH[PYTAGNUM]",dict(major=True),None,"2.0.0"),
 ("1.2.3","MAJOR.MINOR.PATCH[PYTAGNUM]",dict(minor=True),None,"1.3.0"),
 ("1.2.3","MAJOR.MINOR.PATCH[PYTAGNUM]",dict(patch=True),None,"1.2.4"),
 ("1.2.3","MAJOR.MINOR.PATCH[PYTAGNUM]",dict(patch=True,tag="beta"),None,"1.2.4b0"),
 ("1.2.4b0","MAJOR.MINOR.PATCH[PYTAGNUM]",dict(tag_num=True),None,"1.2.4b1"),
 ("2020.10.0","YYYY.MM.PATCH",dict(patch=True),D(2020,10,15),"2020.10.1"),
 ("2020.10.0","YYYY.MM.PATCH",dict(),D(2020,10,15),None),
 ("2020.10.1","YYYY.MM.PATCH",dict(),D(2020,11,1),"2020.11.0"),
 ("2020.9.1","YYYY.MM[.PATCH]",dict(patch=True),D(2020,10,15),"2020.10"),
 ("2020.10","YYYY.MM[.PATCH]",dict(patch=True),D(2020,10,15),"2020.10.1"),
 ("2020.10.1","YYYY.MM[.PATCH]",dict(patch=True),D(2020,10,15),"2020.10.2"),
 ("v2020.41-beta0","vYYYY.WW[-TAGNUM]",dict(),D(2020,10,15),None),
 ("v2020.41-beta0","vYYYY.WW[-TAGNUM]",dict(tag_num=True),D(2020,10,15),"v2020.41-beta1"),
 ("v2020.41-beta0","vYYYY.WW[-TAGNUM]",dict(tag="final"),D(2020,10,15),"v2020.41"),
 ("2020.10.1","YYYY.MM.INC0",dict(),D(2020,10,15),"2020.10.2"),
 ("2020.10.2","YYYY.MM.INC0",dict(),D(2020,11,1),"2020.11.0"),
 ("2020.10","YYYY.MM[.INC0]",dict(),D(2020,10,15),"2020.10.1"),
 ("2020.10.1","YYYY.MM[.INC0]",dict(),D(2020,11,1),"2020.11"),
 ("2020.1001","YYYY.BUILD",dict(),D(2020,10,15),"2020.1002"),
 ("2020.1999","YYYY.BUILD",dict(),D(2020,10,15),"2020.22000"),
 ("v2020.1051-beta","vYYYY.BUILD[-TAG]",dict(),D(2020,10,15),"v2020.1052-beta"),
 ("v2020.1051-beta","vYYYY.BUILD[-TAG]",dict(),D(2021,1,1),"v2021.1052-beta"),
 ("v2020.1051-beta","vYYYY.BUILD[-TAG]",dict(tag="rc"),D(2020,10,15),"v2020.1052-rc"),
 ("v2020.1051-beta","vYYYY.BUILD[-TAG]",dict(tag="final"),D(2020,10,15),"v2020.1052"),
 ("v2020.37-beta","vYYYY.WW[-TAG]",dict(),D(2020,10,15),"v2020.41-beta"),
 ("v201712.0033-beta","vYYYY0M.BUILD[-TAG]",dict(),D(2018,1,5),"v201801.0034-beta"),
 ("v2017.0","vYYYY.INC0[-PATCH]",dict(pin_increments=True, patch=True),D(2017,5,5),"v2017.0-1"),
]
bad = 0
for old, pat, kw, date, exp in EX:
    real = v2version.incr(old, pat, maybe_date=date or D(2020,10,15), **kw)
    ast = rm.parse_pattern(pat)
    vi = v2version.parse_version_info(old, pat)   # only to obtain the old state for the probe
    st = vi._asdict()
    cal = v2version.cal_info(date or D(2020,10,15))._asdict()
    new = rm.bump(ast, st, cal, **kw)
    model = None
    if new is not None:
        model = rm.render(ast, new)
        if model == "" or model == old: model = None
    flag = "ok" if (real == exp == model) else "MISMATCH"
    if flag != "ok": bad += 1
    print(f"{flag:9} {old:20} {pat:30} real={real} model={model} exp={exp}")
print("mismatches:", bad)
