import sys, importlib
sys.path.insert(0, "/verif")
from vp import runner
pid, pat = sys.argv[1], sys.argv[2]
mod = importlib.import_module(f"vp.props.{pid.lower()}")
for ob in mod.obligations(sys.argv[3] if len(sys.argv) > 3 else "quick"):
    if pat in ob.name:
        r = runner.execute(ob)
        print(r.verdict, ob.name, round(r.wall, 1), r.detail[:200], r.call)
