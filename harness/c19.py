"""C19 — `init` always produces a configuration that bumpver itself can use.

Real code: cli.init, config.init, config.init_project_ctx, config._pick_config_filepath, config._parse_config_and_format,
config.default_config, config.write_content, config.parse / _parse_raw_config / _parse_toml / _parse_cfg / _parse_config
(with the real toml and configparser decoders on the generated text).
Symbolic: which of the recognised project files exist and, for the config-capable ones, what they contain
(empty / unrelated section / existing bumpver section).
Stub: in-memory file system (vp.memfs), utils.now (fixed year), click.echo / print.
"""
import vp.chpatch  # noqa
import builtins
import json
import os
import typing as typ

import click

from bumpver import cli, config
from vp.memfs import MemFS, NS

P = json.loads(os.environ.get("VP_PARAMS", "{}"))
YEAR = P.get("year", 2026)
FIX = P.get("fix", {})

CANDIDATES = ["pycalver.toml", "bumpver.toml", ".bumpver.toml", "pyproject.toml", "setup.cfg"]   # documented preference order
OTHERS = ["README.md", "README.rst", "setup.py"]


def fx(name, value) -> bool:
    return FIX.get(name, value) == value


def content(name, cls):
    """cls: 1 empty, 2 unrelated content, 3 existing bumpver section with a current_version"""
    if cls == 1:
        return ""
    toml = name.endswith(".toml")
    if cls == 2:
        if name == "pyproject.toml":
            return '[build-system]\nrequires = ["setuptools"]\n'
        return '[metadata]\nname = "x"\n' if toml else "[metadata]\nname = x\n"
    ver = "2019.1001-alpha"
    if name == "setup.cfg":
        return ("[metadata]\nname = x\n\n[bumpver]\ncurrent_version = \"%s\"\nversion_pattern = \"YYYY.BUILD[-TAG]\"\ncommit = True\n"
                "\n[bumpver:file_patterns]\nsetup.cfg =\n    current_version = \"{version}\"\n" % ver)
    sec = {"pyproject.toml": "tool.bumpver", "pycalver.toml": "pycalver"}.get(name, "bumpver")
    return ('[%s]\ncurrent_version = "%s"\nversion_pattern = "YYYY.BUILD[-TAG]"\ncommit = true\n\n[%s.file_patterns]\n"%s" = [\n'
            '    \'current_version = "{version}"\',\n]\n' % (sec, ver, sec, name))


class _Now:
    def strftime(self, fmt):
        return fmt.replace("%Y", str(YEAR))


class _Env:
    def __init__(self, fs):
        self.fs = fs
        self.echo = []

    def __enter__(self):
        self.saved = (config.pl, config.utils.now, click.echo, builtins.print, cli._configure_logging)
        config.pl = NS(Path=self.fs.Path)
        config.utils.now = lambda: _Now()
        click.echo = lambda message=None, *a, **k: self.echo.append(message)
        builtins.print = lambda *a, **k: None
        cli._configure_logging = lambda verbose=0: None
        return self

    def __exit__(self, *a):
        config.pl, config.utils.now, click.echo, builtins.print, cli._configure_logging = self.saved
        return False


def _run_init(dry):
    try:
        cli.init.callback(verbose=0, dry=dry)
    except SystemExit as ex:
        return ex.code if isinstance(ex.code, int) else 1
    return None


def init_usable(c0: int, c1: int, c2: int, c3: int, c4: int, readme_md: bool, readme_rst: bool, setup_py: bool, dry_first: bool) -> bool:
    """c0..c4: state of pycalver.toml, bumpver.toml, .bumpver.toml, pyproject.toml, setup.cfg (0 absent, 1 empty, 2 unrelated, 3 configured)
    pre: 0 <= c0 <= 3 and 0 <= c1 <= 3 and 0 <= c2 <= 3 and 0 <= c3 <= 3 and 0 <= c4 <= 3
    pre: fx("c0", c0) and fx("c1", c1) and fx("c2", c2) and fx("c3", c3) and fx("c4", c4) and fx("readme_rst", readme_rst)
    post: _
    """
    classes = [c0, c1, c2, c3, c4]
    files = {}
    for name, cls in zip(CANDIDATES, classes):
        if cls:
            files[name] = content(name, cls)
    for name, present in zip(OTHERS, (readme_md, readme_rst, setup_py)):
        if present:
            files[name] = "version 2019.1001-alpha\n"
    fs = MemFS(files)
    before = fs.snapshot()
    # documented choice of the config file
    configured = [n for n, c in zip(CANDIDATES, classes) if c == 3]
    existing = [n for n, c in zip(CANDIDATES, classes) if c]
    want = configured[0] if configured else (existing[0] if existing else "bumpver.toml")
    with _Env(fs) as env:
        if dry_first:
            code = _run_init(True)
            if fs.files != before or fs.writes:
                return False                     # --dry writes nothing
            if configured:
                if code in (None, 0):
                    return False
            elif code != 0:
                return False
        code = _run_init(False)
        if configured:
            # a file that already holds a configuration wins; init refuses and changes nothing
            return code not in (None, 0) and fs.files == before
        if code is not None:
            return False
        changed = [n for n in fs.files if fs.files[n] != before.get(n)]
        if changed != [want]:
            return False
        if not fs.files[want].startswith(before.get(want, "")) or len(fs.files[want]) <= len(before.get(want, "")):
            return False                         # appended: prior content is kept as a prefix
        ctx, cfg = config.init(project_path=".")
        if cfg is None or ctx.config_rel_path != want:
            return False
        if cfg.current_version != str(YEAR) + ".1001-alpha" or cfg.version_pattern != "YYYY.BUILD[-TAG]":
            return False
        if want not in cfg.file_patterns:
            return False
        # `show` reports this year's initial version, read from that file
        env.echo.clear()
        saved_vcs = cli._update_cfg_from_vcs
        cli._update_cfg_from_vcs = lambda cfg, fetch: cfg
        try:
            try:
                cli.show.callback(verbose=0, ignore_vcs_tag=False, fetch=False, env=False, environ=False)
            except SystemExit:
                return False
        finally:
            cli._update_cfg_from_vcs = saved_vcs
        if env.echo[:1] != ["Current Version: " + str(YEAR) + ".1001-alpha"] or env.echo[1:2] != ["PEP440         : " + str(YEAR) + ".1001a0"]:
            return False
        after = fs.snapshot()
        code2 = _run_init(False)
        return code2 not in (None, 0) and fs.files == after      # a second init refuses and changes nothing


def twin_init_never_writes(c1: int) -> bool:
    """reachability twin (must be refuted)
    pre: 0 <= c1 <= 3
    post: _
    """
    files = {"bumpver.toml": content("bumpver.toml", c1)} if c1 else {}
    fs = MemFS(files)
    with _Env(fs):
        _run_init(False)
    return fs.writes == []
