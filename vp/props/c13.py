"""C13 obligations (DESIGN §4.13) — claimed in part."""
from vp.runner import Ob
from vp.props import c10 as _c10

INFO = {
    "design_ref": "§4.13",
    "functions": ["cli.update (dry path, via the skeleton of harness/c10.py)", "cli._print_diff_str", "v2rewrite.diff", "v1rewrite.diff", "rewrite.diff_lines",
                  "v2rewrite.rewrite_files", "v1rewrite.rewrite_files", "v2rewrite.rfd_from_content"],
    "bounds": "(a) update --dry for every flag combination of the skeleton: no call into the writer, no hook, no VCS call; "
              "(b) 2 files x 2 patterns, every match/no-match combination, 8 file orders, v2 and legacy: the RewrittenFileData shown by "
              "diff() equals file by file what rewrite_files writes, diff() writes nothing, diff() succeeds iff the real run succeeds; "
              "(c) the printed text names each file and carries every changed old/new line",
    "outside": "NOT claimed: that the printed unified-diff text, parsed by a strict applier, reproduces the files (difflib hashes "
               "symbolic lines, and a diff parser inside the solver is out of reach); files whose text does not change although the "
               "version did (diff() reports an error there, the real run rewrites identical bytes)",
    "stubs": ["in-memory file system; match/no-match regex stub; recorders of the update skeleton (C10)"],
    "assumptions": [],
}


def obligations(tier):
    t = 300 if tier == "quick" else 1200
    obs = [o for o in _c10.obligations(tier) if o.name.startswith("L3.update_skeleton[dry")]
    obs += [o for o in _c10.obligations(tier) if o.name.startswith("twin.update")]
    for legacy in (False, True):
        eng = "v1" if legacy else "v2"
        for lo in range(0, 8, 4):
            obs.append(Ob(f"L2.dry_shows_what_is_written[{eng}, orders {lo}..{lo + 3}]", "c06.py", "dry_shows_what_is_written",
                          {"legacy": legacy, "nfiles": 2, "npat": 2, "order_lo": lo, "order_hi": lo + 3}, timeout=t))
            obs.append(Ob(f"L2.dry_agrees_with_real[{eng}, orders {lo}..{lo + 3}]", "c06.py", "dry_agrees_with_real",
                          {"legacy": legacy, "nfiles": 2, "npat": 2, "order_lo": lo, "order_hi": lo + 3}, timeout=t))
        # a file whose only pattern is a partial one that this bump does not change, holding a stale value
        obs.append(Ob(f"L2.dry_shows_what_is_written[{eng}, partial pattern in a stale file]", "c06.py", "dry_shows_what_is_written",
                      {"legacy": legacy, "nfiles": 2, "npat": 2, "order_lo": 0, "order_hi": 1, "partial": True}, timeout=t))
    obs.append(Ob("L3.print_diff_verbatim", "c06.py", "print_diff_verbatim", {"plen": 3 if tier == "quick" else 5}, timeout=t,
                  bounds="any diff text of length <= 3 / 5 (all code points, incl. form feed, NEL, U+2028)"))
    return obs
