#!/bin/bash
# tools/seed_verify.sh <seed-dir-with-patch.diff,demo.py> : confirms (in a scratch worktree) that the patch applies, the pinned suite
# keeps its 500 passes, and the demo fails with / passes without the change. Prints a one-line verdict.
set -u
D="$(readlink -f "$1")"
W="$(mktemp -d /tmp/vpseed.XXXXXX)"; rmdir "$W"
git -C /repo worktree add -q --detach "$W" HEAD || exit 3
cleanup() { git -C /repo worktree remove --force "$W" 2>/dev/null; rm -rf "$W"; }
trap cleanup EXIT
PYTHONPATH="$W/src" /venv/bin/python "$D/demo.py" >/dev/null 2>&1; base=$?
git -C "$W" apply "$D/patch.diff" || { echo "patch does not apply"; exit 3; }
PYTHONPATH="$W/src" /venv/bin/python "$D/demo.py" >/dev/null 2>&1; mut=$?
suite=$(python3 "$(dirname "$0")/suite.py" "$W" | head -1)
echo "demo_without=$base demo_with=$mut suite: $suite"
