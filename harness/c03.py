"""C03 — after an update no configured occurrence is left stale; C04 — nothing but the matched spans changes.

Real code: v2rewrite.rewrite_lines / v1rewrite.rewrite_lines, parse.iter_matches, parse._iter_for_pattern, parse._has_overlap,
v2rewrite.rfd_from_content (+v1), rewrite.detect_line_sep, rewrite_files, config._parse_current_version_default_pattern,
config._compile_file_patterns.
Symbolic: the text of each line / file, the span of every (pattern, line) occurrence.
Stub: vp.fakere.FakeRe — the span geometry is an input; *which* text a regex matches is C02/C07's subject.
"""
import vp.chpatch  # noqa
import json
import os
import typing as typ

from bumpver import parse, rewrite, v2rewrite, v1rewrite, v2version, v1version, v2patterns, v1patterns, config
from vp.fakere import FakeRe
from vp.memfs import MemFS, NS

P = json.loads(os.environ.get("VP_PARAMS", "{}"))
LEGACY = P.get("legacy", False)
LEN = P.get("len", 5)
ORDER = P.get("order", [0, 1])            # configured order of the two patterns
NO_SHARED_LINE = P.get("exclude_shared_line", False)   # known-finding class S2
ONLY_SHARED_LINE = P.get("only_shared_line", False)
NO_ADJACENT = P.get("exclude_adjacent", False)         # known-finding class S3
ONLY_ADJACENT = P.get("only_adjacent", False)

if LEGACY:
    VP = "{semver}"
    RAWS = ["{version}", "v{pep440_version}"]
    NEW = v1version.parse_version_info("1.2.4", VP)
    REPL = ["1.2.4", "v1.2.4"]
    _compile = v1patterns.compile_pattern
    _mod = v1rewrite
else:
    VP = "MAJOR.MINOR.PATCH"
    RAWS = ["{version}", "v{pep440_version}"]
    NEW = v2version.parse_version_info("1.2.4", VP)
    REPL = ["1.2.4", "v1.2.4"]
    _compile = v2patterns.compile_pattern
    _mod = v2rewrite


def _pattern(i, spans):
    return _compile(VP, RAWS[i])._replace(regexp=FakeRe(spans))


def span_ok(text, has, l, r) -> bool:
    return (not has) or (0 <= l < r <= len(text))


def disjoint(has_a, la, ra, has_b, lb, rb) -> bool:
    if not (has_a and has_b):
        return True
    return ra <= lb or rb <= la


def class_ok(has_a0, la0, ra0, has_b0, lb0, rb0, has_a1, la1, ra1, has_b1, lb1, rb1) -> bool:
    shared = (has_a0 and has_b0) or (has_a1 and has_b1)
    adjacent = (has_a0 and has_b0 and (ra0 == lb0 or rb0 == la0)) or (has_a1 and has_b1 and (ra1 == lb1 or rb1 == la1))
    if NO_SHARED_LINE and shared:
        return False
    if ONLY_SHARED_LINE and not shared:
        return False
    if NO_ADJACENT and adjacent:
        return False
    if ONLY_ADJACENT and not adjacent:
        return False
    return True


def _expected_line(text, occ):
    """occ: list of (l, r, replacement) disjoint; every occurrence replaced, everything else kept"""
    occ = sorted(occ, key=lambda o: o[0])
    out, pos = "", 0
    for l, r, rep in occ:
        out += text[pos:l] + rep
        pos = r
    return out + text[pos:]


def _same(a: str, b: str) -> bool:
    if len(a) != len(b):
        return False
    for x, y in zip(a, b):
        if x != y:
            return False
    return True


def rewrite_two_lines(t0, t1, has_a0, la0, ra0, has_b0, lb0, rb0, has_a1, la1, ra1, has_b1, lb1, rb1) -> bool:
    """two patterns (a, b), two lines; any combination of occurrences (at most one per pattern per line), disjoint spans.
    The contract (bounds, span validity, disjointness, finding classes) is on the generated wrappers (vp/props/c03.py)."""
    pa = _pattern(0, [(la0, ra0) if has_a0 else None, (la1, ra1) if has_a1 else None])
    pb = _pattern(1, [(lb0, rb0) if has_b0 else None, (lb1, rb1) if has_b1 else None])
    patterns = [[pa, pb][i] for i in ORDER]
    try:
        got = _mod.rewrite_lines(patterns, NEW, [t0, t1])
        failed = False
    except rewrite.NoPatternMatch:
        got, failed = None, True
    a_found = has_a0 or has_a1
    b_found = has_b0 or has_b1
    if not (a_found and b_found):
        return failed   # a configured pattern without any match is an error, never a silent success
    if failed:
        return False
    occ0 = ([(la0, ra0, REPL[0])] if has_a0 else []) + ([(lb0, rb0, REPL[1])] if has_b0 else [])
    occ1 = ([(la1, ra1, REPL[0])] if has_a1 else []) + ([(lb1, rb1, REPL[1])] if has_b1 else [])
    return len(got) == 2 and got[0] == _expected_line(t0, occ0) and got[1] == _expected_line(t1, occ1)


def has_overlap_spec(n_line: int, nl: int, nr: int, s_line: int, sl: int, sr: int) -> bool:
    """parse._has_overlap <=> the two half-open spans lie on the same line and intersect
    pre: 0 <= n_line <= 2 and 0 <= s_line <= 2 and 0 <= nl < nr <= 20 and 0 <= sl < sr <= 20
    pre: adjacent_class_ok(n_line, nl, nr, s_line, sl, sr)
    post: _
    """
    got = parse._has_overlap(parse.LineSpan(n_line, nl, nr), [parse.LineSpan(s_line, sl, sr)])
    want = n_line == s_line and nl < sr and sl < nr
    return got == want


def adjacent_class_ok(n_line, nl, nr, s_line, sl, sr) -> bool:
    adjacent = n_line == s_line and (nr == sl or sr == nl)
    if NO_ADJACENT and adjacent:
        return False
    if ONLY_ADJACENT and not adjacent:
        return False
    return True


def twin_never_rewrites(t0: str, l: int, r: int) -> bool:
    """reachability twin (must be refuted)
    pre: len(t0) <= 4 and 0 <= l < r <= len(t0)
    post: _
    """
    pa = _pattern(0, [(l, r)])
    got = _mod.rewrite_lines([pa], NEW, [t0])
    return got[0] == t0


# ---------------------------------------------------------------------------------------------------------------------
# C04: split / join identity and what is written

KLO, KHI = P.get("klo", 0), P.get("khi", 9)
ALPHABET = P.get("alphabet", "a\r\n﻿é\x00.$")


def in_alphabet(c: str) -> bool:
    for ch in c:
        if ch not in ALPHABET:
            return False
    return True


def content_roundtrip(c: str, has: bool, k: int, l: int, r: int) -> bool:
    """rfd_from_content + the join of rewrite_files: with a match on line k at [l, r) the written text equals the content with
    exactly that span replaced; every other character, every line ending (LF, CRLF, CR or mixed), a missing or present final
    newline and a BOM are kept
    pre: len(c) == LEN and in_alphabet(c) and KLO <= k <= KHI and 0 <= l < r <= LEN
    post: _
    """
    sep = rewrite.detect_line_sep(c)
    lines = c.split(sep)
    if k >= len(lines) or r > len(lines[k]):
        return True   # span outside the content: not a case
    spans: typ.List[typ.Optional[typ.Tuple[int, int]]] = [None] * len(lines)
    spans[k] = (l, r)
    pa = _pattern(0, spans)
    rfd = _mod.rfd_from_content([pa], NEW, c)
    written = rfd.line_sep.join(rfd.new_lines)
    # offset of line k in the content
    off = 0
    for i in range(k):
        off += len(lines[i]) + len(sep)
    want = c[:off + l] + REPL[0] + c[off + r:]
    return written == want and rfd.line_sep == sep


def split_join_identity(c: str) -> bool:
    """no match anywhere is an error, but the split/join itself is the identity on every content
    pre: len(c) <= LEN + 2 and in_alphabet(c)
    post: _
    """
    sep = rewrite.detect_line_sep(c)
    return _same(sep.join(c.split(sep)), c) and sep in ("\n", "\r", "\r\n")


def io_contract(e_missing: bool, legacy_first: bool) -> bool:
    """every read and write goes through newline='' and encoding='utf-8' (locale independent); only configured paths are opened;
    one write per configured file
    post: _
    """
    files = {"a.txt": "x 1.2.3 y\r\nz", "b.txt": "1.2.3\n", "other.txt": "1.2.3"}
    fs = MemFS(files)
    fp = {"a.txt": [_pattern(0, [(2, 7), None])], "b.txt": [_pattern(0, [(0, 5), None])]}
    saved = (rewrite.pl, v2rewrite.io, v1rewrite.io)
    rewrite.pl = NS(Path=fs.Path)
    v2rewrite.io = v1rewrite.io = NS(open=fs.open)
    try:
        _mod.rewrite_files(fp, NEW)
    finally:
        rewrite.pl, v2rewrite.io, v1rewrite.io = saved
    for path, mode, newline, encoding in fs.opens:
        if path not in fp or newline != "" or encoding != "utf-8":
            return False
    return sorted(p for p, _ in fs.writes) == ["a.txt", "b.txt"] and fs.files["other.txt"] == "1.2.3" \
        and fs.files["a.txt"] == "x 1.2.4 y\r\nz" and fs.files["b.txt"] == "1.2.4\n"


# ---------------------------------------------------------------------------------------------------------------------
# L4 / L5: the config file's own current_version line

SECTIONS = ["[bumpver]", "[tool.bumpver]", "[pycalver]"]


def self_pattern(a: int, b: int, c: int, sec: int, decoy: int, quoted: bool) -> bool:
    """the implicit pattern for the config file is its own current_version line (inside the bumpver section, wherever a
    look-alike line of another section stands) with exactly the version replaced by the version pattern
    pre: 0 <= a <= 99 and 0 <= b <= 99 and 0 <= c <= 99 and 0 <= sec <= 2 and 0 <= decoy <= 2
    post: _
    """
    ver = str(a) + "." + str(b) + "." + str(c)
    q = '"' if quoted else ""
    own = "current_version = " + q + ver + q
    other = ["[metadata]", "current_version = 0.0.1", "name = x"]
    body = [SECTIONS[sec], own, "version_pattern = " + q + "MAJOR.MINOR.PATCH" + q]
    lines = (other + body) if decoy == 1 else (body + other) if decoy == 2 else body
    text = "\n".join(lines) + "\n"
    got = config._parse_current_version_default_pattern({"current_version": ver, "version_pattern": "MAJOR.MINOR.PATCH"}, text)
    return got == "current_version = " + q + "MAJOR.MINOR.PATCH" + q


def reread_closure(a: int, b: int, c: int, quoted: bool) -> bool:
    """setup.cfg: after the own line was rewritten to the announced version, the real reader returns exactly that version
    pre: 0 <= a <= 999 and 0 <= b <= 999 and 0 <= c <= 999
    post: _
    """
    import io
    ver = str(a) + "." + str(b) + "." + str(c)
    q = '"' if quoted else ""
    text = "[bumpver]\ncurrent_version = " + q + ver + q + "\nversion_pattern = \"MAJOR.MINOR.PATCH\"\ncommit = True\n"
    raw = config._parse_cfg(io.StringIO(text))
    got = raw["current_version"].strip("'\" ")
    return got == ver and raw["commit"] is True


SPELLINGS = ["a.txt", "./a.txt", "a.*", ".//a.txt"]


def merge_file_patterns(same_path: bool, n2: int, sp1: int, sp2: int, between: bool = False) -> bool:
    """repeated file entries (a glob, a literal, a non-canonical spelling such as ./a.txt naming the same file) are merged into one
    entry, also when another file's entry stands between them: every pattern of every entry is kept, the file is rewritten once
    pre: 1 <= n2 <= 2 and 0 <= sp1 <= 3 and 0 <= sp2 <= 3 and sp1 != sp2
    post: _
    """
    fp = {SPELLINGS[sp1]: ["{version}"]}
    if between:
        fp["c.txt"] = ["{version}"]
    fp[SPELLINGS[sp2] if same_path else "b.txt"] = ["v{version}", "{pep440_version}"][:n2]
    raw = {"version_pattern": "MAJOR.MINOR.PATCH", "file_patterns": fp}
    fs = MemFS({"a.txt": "", "b.txt": "", "c.txt": ""})
    saved = config.pl
    config.pl = NS(Path=fs.Path)
    try:
        got = config._compile_file_patterns(raw, True)
    finally:
        config.pl = saved
    if between:
        if "c.txt" not in got or len(got["c.txt"]) != 1:
            return False
        got = {k: v for k, v in got.items() if k != "c.txt"}
    if same_path:
        return list(got) == ["a.txt"] and [p.raw_pattern for p in got["a.txt"]] == ["MAJOR.MINOR.PATCH", "vMAJOR.MINOR.PATCH", "MAJOR.MINOR.PATCH[PYTAGNUM]"][:1 + n2]
    return sorted(got) == ["a.txt", "b.txt"] and len(got["b.txt"]) == n2 and len(got["a.txt"]) == 1


def real_anchored_first_line(has_bom: bool, tail: str, sep_i: int) -> bool:
    """with the real compiled regex of an anchored pattern ('^{version}') on the first line of a file that may start with a BOM:
    either the pattern does not match (reported as an error) or exactly the matched span is replaced - the BOM and every other
    character stay
    pre: len(tail) <= 2 and 0 <= sep_i <= 2 and "\r" not in tail and "\n" not in tail and in_alphabet(tail)
    post: _
    (the tail is drawn from the digit-free alphabet: a digit would extend the version; the legacy renderer writes the '^' of the
    raw pattern as a literal into the span - span-local, not C04's subject)
    """
    sep = ["\n", "\r\n", "\r"][sep_i]
    content = ("\ufeff" if has_bom else "") + "1.2.3" + tail + sep + "x"
    pat = _compile(VP, "^{version}")
    try:
        rfd = _mod.rfd_from_content([pat], NEW, content)
    except rewrite.NoPatternMatch:
        return True
    written = rfd.line_sep.join(rfd.new_lines)
    return written == ("\ufeff" if has_bom else "") + ("^" if LEGACY else "") + "1.2.4" + tail + sep + "x"
