"""Independent PEP 440 order (DESIGN §4.16): a lexicographic order on integer tuples by construction.

Structured version: epoch, release (ints), pre = None | (phase, n) with phase in a < b < rc, post = None | n, dev = None | n.
PEP 440: X.devN < X.aN[.devM] < X.bN < X.rcN < X < X.postN[.devM]; 1.2 == 1.2.0; higher epoch wins.
"""
PHASE_RANK = {"a": 0, "b": 1, "rc": 2}
BIG = 10 ** 12
RELEASE_LEN = 4


def key(epoch, release, pre, post, dev):
    rel = list(release) + [0] * (RELEASE_LEN - len(release))   # trailing zeros are insignificant
    if pre is None and post is None and dev is not None:
        pre_k = (-1, 0)          # a bare .devN sorts before every pre-release of the same release
    elif pre is None:
        pre_k = (3, 0)           # final (and post) releases sort after every pre-release
    else:
        pre_k = (PHASE_RANK[pre[0]], pre[1])
    post_k = -1 if post is None else post
    dev_k = BIG if dev is None else dev       # X.devN sorts before X
    return (epoch, *rel, *pre_k, post_k, dev_k)


# bumpver tag -> structured segments
def from_tag(tag, num):
    """(pre, post, dev) of a bumpver release tag with its number"""
    if tag in ("final", ""):
        return None, None, None
    if tag in ("alpha", "a"):
        return ("a", num), None, None
    if tag in ("beta", "b"):
        return ("b", num), None, None
    if tag in ("rc", "c", "pre", "preview"):
        return ("rc", num), None, None
    if tag == "post":
        return None, num, None
    if tag == "dev":
        return None, None, num
    raise ValueError(tag)
