import typing as typ
from bumpver import v2version, version

BASE = v2version.parse_field_values_to_vinfo({'year_y': "2020", 'month': "10", 'dom': '15'})

def step(major_v: int, minor_v: int, patch_v: int, inc0: int, f_major: bool, f_minor: bool, f_patch: bool, pin: bool) -> typ.Tuple[int,int,int,int]:
    """
    pre: 0 <= major_v <= 1000 and 0 <= minor_v <= 1000 and 0 <= patch_v <= 1000 and 0 <= inc0 <= 1000
    post: _[0] == major_v + (1 if f_major else 0)
    post: _[1] == (0 if f_major else minor_v + (1 if f_minor else 0))
    post: _[2] == (0 if (f_major or f_minor) else patch_v + (1 if f_patch else 0))
    """
    old = BASE._replace(major=major_v, minor=minor_v, patch=patch_v, inc0=inc0)
    new = v2version._incr_numeric("MAJOR.MINOR.PATCH.INC0", old, old, major=f_major, minor=f_minor, patch=f_patch, tag=None, tag_num=False, pin_increments=pin)
    return (new.major, new.minor, new.patch, new.inc0)
