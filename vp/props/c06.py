"""C06 obligations (DESIGN §4.6)."""
from vp.runner import Ob, finding_open

INFO = {
    "design_ref": "§4.6",
    "functions": ["cli._try_update", "cli._update", "v2rewrite.rewrite_files", "v2rewrite.iter_rewritten", "v2rewrite.rfd_from_content",
                  "v2rewrite.rewrite_lines", "v2rewrite.diff", "v1rewrite.* (same)", "parse.iter_matches", "rewrite.iter_path_patterns_items",
                  "vcs.assert_not_dirty", "vcs.commit"],
    "bounds": "2..3 files x 2 patterns; every subset of {file missing} x {(file, pattern) not matching} (2^9), 8 dict orders, commit on/off, "
              "v2 and legacy engines",
    "outside": "more than 3 files / 2 patterns per file; I/O errors other than a missing file (permissions, disk full); "
               "rejection of the new version is C01-L3 (no call into the writer)",
    "stubs": ["in-memory file system for bumpver.pathlib.Path / io.open", "match/no-match regex stub (text search for a fixed needle)",
              "recording VCS API (status/add/commit/tag/push)"],
    "assumptions": ["a write to one file cannot fail halfway (atomicity of a single write is the OS's)"],
}
KEY_LAZY = "C06:pattern without a match (or missing file) in a later file, earlier file already rewritten"


def obligations(tier):
    obs = []
    t = 240 if tier == "quick" else 900
    is_open = finding_open(KEY_LAZY)
    for legacy in (False, True):
        eng = "v1" if legacy else "v2"
        base = {"legacy": legacy, "nfiles": 3 if tier == "thorough" else 2, "npat": 2}
        for lo in range(0, 8, 2):
            sh = dict(base, order_lo=lo, order_hi=lo + 1)
            obs.append(Ob(f"L1.failed_update_atomic[{eng},orders {lo}..{lo + 1}]", "c06.py", "failed_update_atomic", sh, timeout=t,
                          expect="known" if is_open else "confirm", finding=KEY_LAZY if is_open else None))
        for lo in range(0, 8, 4):
            sh = dict(base, order_lo=lo, order_hi=lo + 3)
            obs.append(Ob(f"L2.dry_agrees_with_real[{eng},orders {lo}..{lo + 3}]", "c06.py", "dry_agrees_with_real", sh, timeout=t))
    obs.append(Ob("twin.never_fails", "c06.py", "twin_never_fails", {}, expect="refute", timeout=60))
    obs.append(Ob("twin.never_succeeds", "c06.py", "twin_never_succeeds", {}, expect="refute", timeout=60))
    return obs
