"""./check driver: schedules solver obligations over the real bumpver code (DESIGN §2.2).

An obligation = one harness function (PEP 316 contract over calls into /repo/src/bumpver)
+ one parameter set (bounds / digit-class shard / pattern), decided by one
`crosshair check` process (engine "crosshair") or one in-process z3 query run by a
harness script (engine "z3").
"""
import ast
import concurrent.futures as cf
import dataclasses
import hashlib
import importlib
import json
import os
import pathlib
import random
import re
import subprocess
import sys
import time
import typing as typ

HERE = pathlib.Path(__file__).resolve().parent.parent
HARNESS = HERE / "harness"
VENV_BIN = HERE / ".venv" / "bin"
REPO = pathlib.Path(os.environ.get("VP_REPO", "/repo"))
OUT = pathlib.Path(os.environ.get("VP_OUT", str(HERE)))  # evidence/ and replays/ go here (selftest redirects it)

EXIT_OK, EXIT_VIOLATION, EXIT_HARNESS = 0, 1, 2


@dataclasses.dataclass
class Ob:
    name: str  # lemma / shard label
    module: str  # file under harness/
    func: str
    params: dict = dataclasses.field(default_factory=dict)
    expect: str = "confirm"  # confirm | refute (reachability twin / witness) | known (known-finding witness)
    timeout: int = 120
    finding: typ.Optional[str] = None  # key in known_findings.jsonl for expect == known
    bounds: str = ""
    engine: str = "crosshair"  # crosshair | z3
    per_path: typ.Optional[int] = None
    source: typ.Optional[str] = None  # generated wrapper module (exact signature + bounds); written to .work/ and used as module


WORK = HERE / ".work"


def materialise(ob: "Ob") -> pathlib.Path:
    """harness file of an obligation; generated wrappers are (re)written on every run"""
    if ob.source is None:
        return HARNESS / ob.module
    h = hashlib.sha1(ob.source.encode()).hexdigest()[:12]
    d = WORK / "gen"
    d.mkdir(parents=True, exist_ok=True)
    p = d / f"{pathlib.Path(ob.module).stem}_{h}.py"
    if not p.exists() or p.read_text() != ob.source:
        tmp = p.with_suffix(f".tmp{os.getpid()}")
        tmp.write_text(ob.source)
        tmp.replace(p)
    return p


@dataclasses.dataclass
class Res:
    ob: Ob
    verdict: str  # confirmed | counterexample | inconclusive | error
    detail: str = ""
    call: str = ""  # counterexample call expression
    wall: float = 0.0
    replayed: typ.Optional[bool] = None
    replay_path: str = ""
    replay_out: str = ""


def func_line(path: pathlib.Path, func: str) -> int:
    tree = ast.parse(path.read_text())
    for node in ast.walk(tree):
        if isinstance(node, ast.FunctionDef) and node.name == func:
            return node.lineno + 1
    raise KeyError(f"{func} not in {path}")


def child_env(params: dict) -> dict:
    env = dict(os.environ)
    env["VP_PARAMS"] = json.dumps(params, sort_keys=True)
    pp = [str(HERE)]
    if os.environ.get("VP_REPO"):
        pp.insert(0, str(REPO / "src"))
    pp.append(str(HARNESS))
    env["PYTHONPATH"] = os.pathsep.join(pp)
    env["PYTHONDONTWRITEBYTECODE"] = "1"
    env["PYTHONHASHSEED"] = "0"
    env.pop("VP_REPLAY", None)
    return env


_CE_RE = re.compile(r"^(?P<file>[^:]+):(?P<line>\d+): error: (?P<msg>.*) when calling (?P<call>.*?)(?: \(which returns (?P<ret>.*)\))?$")


def run_crosshair(ob: Ob) -> Res:
    path = materialise(ob)
    t0 = time.time()
    try:
        line = func_line(path, ob.func)
    except Exception as ex:  # noqa
        return Res(ob, "error", f"cannot locate harness: {ex!r}")
    cmd = [
        str(VENV_BIN / "crosshair"), "check", "--report_all",
        "--per_condition_timeout", str(ob.timeout),
        "--per_path_timeout", str(ob.per_path or max(10, ob.timeout // 2)),
        f"{path}:{line}",
    ]
    try:
        proc = subprocess.run(cmd, env=child_env(ob.params), capture_output=True, text=True,
                              timeout=ob.timeout * 1.5 + 60, cwd=str(HERE))
    except subprocess.TimeoutExpired:
        return Res(ob, "inconclusive", "process timeout", wall=time.time() - t0)
    wall = time.time() - t0
    out = (proc.stdout or "") + (proc.stderr or "")
    lines = [ln for ln in (proc.stdout or "").splitlines() if ln.strip()]
    for ln in lines:
        m = _CE_RE.match(ln)
        if m:
            return Res(ob, "counterexample", m.group("msg"), call=m.group("call"), wall=wall)
    for ln in lines:
        if "Confirmed over all paths" in ln:
            return Res(ob, "confirmed", "", wall=wall)
    for ln in lines:
        if "Unable to meet precondition" in ln and "raised" in ln:
            return Res(ob, "error", ln.split(": ", 2)[-1], wall=wall)
        if "Not confirmed" in ln or "Unable to meet precondition" in ln:
            return Res(ob, "inconclusive", ln.split(": ", 2)[-1], wall=wall)
    if proc.returncode not in (0, 1) or "Traceback" in out or ": error:" in out:
        return Res(ob, "error", out[-1500:], wall=wall)
    return Res(ob, "inconclusive", out[-300:] or "no verdict line", wall=wall)


def run_z3(ob: Ob) -> Res:
    """Harness script prints one JSON line {"verdict": unsat|sat|unknown, "model": "...call expr..."}.
    unsat == property holds for all values in the bound (== confirmed)."""
    path = materialise(ob)
    t0 = time.time()
    cmd = [str(VENV_BIN / "python"), str(path), ob.func, str(ob.timeout)]
    try:
        proc = subprocess.run(cmd, env=child_env(ob.params), capture_output=True, text=True,
                              timeout=ob.timeout * 1.5 + 60, cwd=str(HERE))
    except subprocess.TimeoutExpired:
        return Res(ob, "inconclusive", "process timeout", wall=time.time() - t0)
    wall = time.time() - t0
    try:
        last = [ln for ln in proc.stdout.splitlines() if ln.startswith("{")][-1]
        d = json.loads(last)
    except Exception:  # noqa
        return Res(ob, "error", (proc.stdout + proc.stderr)[-1500:], wall=wall)
    v = d.get("verdict")
    if v == "unsat":
        return Res(ob, "confirmed", d.get("detail", ""), wall=wall)
    if v == "sat":
        return Res(ob, "counterexample", d.get("detail", "sat"), call=d.get("call", ""), wall=wall)
    return Res(ob, "inconclusive", d.get("detail", str(v)), wall=wall)


def replay(ob: Ob, call: str) -> typ.Tuple[bool, str]:
    """Re-executes the counterexample on plain CPython (no CrossHair in the loop)."""
    env = child_env(ob.params)
    env["VP_REPLAY"] = "1"
    cmd = [str(VENV_BIN / "python"), "-m", "vp.replay", str(materialise(ob)), ob.func, call]
    try:
        proc = subprocess.run(cmd, env=env, capture_output=True, text=True, timeout=300, cwd=str(HERE))
    except subprocess.TimeoutExpired:
        return False, "replay timeout"
    return proc.returncode == 1, (proc.stdout + proc.stderr)[-1200:]


def write_replay_file(pid: str, ob: Ob, call: str) -> str:
    h = hashlib.sha1(f"{ob.module}:{ob.func}:{json.dumps(ob.params, sort_keys=True)}:{call}".encode()).hexdigest()[:10]
    d = OUT / "replays"
    d.mkdir(exist_ok=True, parents=True)
    p = d / f"{pid}-{h}.py"
    p.write_text(
        "#!/usr/bin/env python\n"
        f"# replay of a counterexample for {pid} / {ob.name}; exits 1 when the violation reproduces\n"
        "import os, sys\n"
        f"os.environ['VP_PARAMS'] = {json.dumps(ob.params, sort_keys=True)!r}\n"
        "os.environ['VP_REPLAY'] = '1'\n"
        f"sys.path.insert(0, {str(HERE)!r})\n"
        + (f"sys.path.insert(0, {str(REPO / 'src')!r})\n" if os.environ.get("VP_REPO") else "")
        +
        "from vp.replay import replay_call\n"
        + (f"SRC = {ob.source!r}\nimport pathlib\np = pathlib.Path({str(materialise(ob))!r})\n"
           "p.parent.mkdir(parents=True, exist_ok=True)\np.write_text(SRC)\n" if ob.source else "")
        + f"sys.exit(replay_call({str(materialise(ob))!r}, {ob.func!r}, {call!r}))\n"
    )
    return str(p)


def load_known() -> typ.List[dict]:
    p = HERE / "known_findings.jsonl"
    out = []
    if p.exists():
        for ln in p.read_text().splitlines():
            ln = ln.strip()
            if ln and not ln.startswith("#"):
                out.append(json.loads(ln))
    return out


def finding_open(key: str) -> bool:
    return any(k["key"] == key and k.get("status") == "open" for k in load_known())


def execute(ob: Ob) -> Res:
    res = run_z3(ob) if ob.engine == "z3" else run_crosshair(ob)
    if res.verdict == "counterexample":
        ok, out = replay(ob, res.call)
        res.replayed, res.replay_out = ok, out
    return res


def run_check(pid: str, tier: str) -> int:
    t_start = time.time()
    seed = int(os.environ.get("VERIF_SEED", "0") or 0)
    mod = importlib.import_module(f"vp.props.{pid.lower()}")
    info = mod.INFO
    problems: typ.List[str] = []
    validations = []
    # 1. stub / reference-model validation against the real environment (concrete; not the deciding step)
    for label, fn in getattr(mod, "validations", lambda tier: [])(tier):
        t0 = time.time()
        try:
            n, errs = fn()
        except Exception as ex:  # noqa
            n, errs = 0, [f"{type(ex).__name__}: {ex}"]
        validations.append({"name": label, "cases": n, "errors": errs[:5], "wall_s": round(time.time() - t0, 2)})
        if errs:
            problems.append(f"validation {label} failed: {errs[:3]}")
    obs: typ.List[Ob] = mod.obligations(tier)
    order = list(range(len(obs)))
    random.Random(seed).shuffle(order)
    # long obligations first for better packing
    order.sort(key=lambda i: -obs[i].timeout)
    results: typ.List[typ.Optional[Res]] = [None] * len(obs)
    workers = int(os.environ.get("VP_JOBS", str(os.cpu_count() or 4)))
    with cf.ThreadPoolExecutor(max_workers=workers) as ex:
        futs = {ex.submit(execute, obs[i]): i for i in order}
        for fut in cf.as_completed(futs):
            i = futs[fut]
            try:
                results[i] = fut.result()
            except Exception as e:  # noqa
                results[i] = Res(obs[i], "error", repr(e))
            r = results[i]
            print(f"  [{r.verdict:14s}] {r.ob.name} ({r.ob.expect}) {r.wall:.1f}s {r.detail[:100]}", file=sys.stderr, flush=True)

    violations, known_lines, inconclusive, discharged = [], [], [], 0
    samples = []
    for r in results:
        ob = r.ob
        entry = {"obligation": ob.name, "harness": f"harness/{ob.module}:{ob.func}" + (" (generated wrapper)" if ob.source else ""), "params": ob.params,
                 "bounds": ob.bounds, "expect": ob.expect, "verdict": r.verdict, "solver_wall_s": round(r.wall, 1)}
        if r.call:
            entry["counterexample"] = r.call
            entry["replayed"] = r.replayed
        samples.append(entry)
        if r.verdict == "error":
            problems.append(f"{ob.name}: harness error: {r.detail[-400:]}")
            continue
        if ob.expect == "confirm":
            if r.verdict == "confirmed":
                discharged += 1
            elif r.verdict == "counterexample":
                if r.replayed:
                    path = write_replay_file(pid, ob, r.call)
                    violations.append((ob, r, path))
                else:
                    problems.append(f"{ob.name}: counterexample {r.call} does not replay on CPython: {r.replay_out[-300:]}")
            else:
                inconclusive.append(ob.name)
        elif ob.expect == "refute":
            if r.verdict == "counterexample" and r.replayed:
                discharged += 1
            elif r.verdict == "confirmed":
                problems.append(f"{ob.name}: reachability twin was Confirmed -> harness family is vacuous")
            elif r.verdict == "counterexample":
                problems.append(f"{ob.name}: witness {r.call} does not replay: {r.replay_out[-300:]}")
            else:
                inconclusive.append(ob.name)
        elif ob.expect == "known":
            if r.verdict == "counterexample" and r.replayed:
                discharged += 1
                summ = next((k["summary"] for k in load_known() if k["key"] == ob.finding), ob.finding)
                known_lines.append(f"KNOWN-FINDING: property={pid} {ob.finding}: {summ} [witness {r.call}]")
            elif r.verdict == "confirmed":
                print(f"note: known finding {ob.finding} no longer reproduces (witness obligation confirmed)")
            elif r.verdict == "counterexample":
                problems.append(f"{ob.name}: known-finding witness {r.call} does not replay")
            else:
                inconclusive.append(ob.name)

    seen = set()
    for line in known_lines:
        key = line.split(" [witness", 1)[0]
        if key not in seen:
            seen.add(key)
            print(line)
    for ob, r, path in violations:
        print(f"VIOLATION property={pid} replay={path}")
        print(f"  obligation {ob.name}: {r.detail} when calling {r.call}")
    for p in problems:
        print(f"HARNESS-PROBLEM: {p}")
    if inconclusive:
        print(f"inconclusive ({len(inconclusive)}): {', '.join(inconclusive[:20])}")

    wall = time.time() - t_start
    n_ok = sum(1 for r in results if r.verdict in ("confirmed",) or (r.verdict == "counterexample" and r.replayed))
    evidence = {
        "property_id": pid,
        "tier": tier,
        "seed": seed,
        "level": "model_checking",
        "coverage": {
            "evaluations": len(results),
            "distinct_nontrivial": len({(r.ob.module, r.ob.func, json.dumps(r.ob.params, sort_keys=True)) for r in results
                                        if r.verdict == "confirmed" or (r.verdict == "counterexample" and r.replayed)}),
            "rule": "one evaluation = one solver obligation (harness function x parameter set: pattern, digit-class shard, bounds) "
                    "decided by CrossHair/z3 over all values in the stated bound; counted as distinct+nontrivial when the verdict is "
                    "definitive: 'Confirmed over all paths' / unsat, or a counterexample that replays on plain CPython "
                    "(reachability twins and known-finding witnesses must be refuted)",
            "obligations": len(results),
            "discharged": discharged,
            "inconclusive": inconclusive,
            "definitive_verdicts": n_ok,
            "checker_cmd": "crosshair check --report_all --per_condition_timeout T harness/<module>.py:<line> (z3 5.1.0 via crosshair-tool 0.0.110); z3 LIA queries in-process for engine=z3",
            "functions_encoded": info.get("functions", []),
            "bounds": info.get("bounds", ""),
            "outside_bounds": info.get("outside", ""),
            "stubs": info.get("stubs", []),
            "solver_wall_s": round(sum(r.wall for r in results), 1),
            "traces_validated_against_impl": sum(v["cases"] for v in validations) + sum(1 for r in results if r.replayed),
            "validations": validations,
            "samples": samples,
            "known_findings_reported": known_lines,
            "repo": str(REPO),
            "exhaustive": False,
        },
        "assumptions": info.get("assumptions", []) + [
            "CrossHair 0.0.110 models of int/str/re + the five local patches of vp/chpatch.py (DESIGN §2.1)",
            "lemma composition argued in DESIGN.md " + info.get("design_ref", ""),
        ],
        "wall_s": round(wall, 1),
        "violations": len(violations),
    }
    (OUT / "evidence").mkdir(exist_ok=True, parents=True)
    (OUT / "evidence" / f"{pid}.json").write_text(json.dumps(evidence, indent=1) + "\n")
    print(f"{pid} {tier}: obligations={len(results)} discharged={discharged} inconclusive={len(inconclusive)} "
          f"violations={len(violations)} known={len(known_lines)} problems={len(problems)} wall={wall:.0f}s")
    if violations:
        return EXIT_VIOLATION
    if problems:
        return EXIT_HARNESS
    return EXIT_OK


def main(argv):
    if len(argv) >= 2 and argv[0] == "--replay":
        env = dict(os.environ)
        return subprocess.call([str(VENV_BIN / "python"), argv[1]], env=env)
    if not argv:
        print("usage: ./check Cxx [--tier quick|thorough] | ./check --replay file")
        return EXIT_HARNESS
    pid = argv[0].upper()
    tier = os.environ.get("VERIF_TIER", "quick")
    if "--tier" in argv:
        tier = argv[argv.index("--tier") + 1]
    return run_check(pid, tier)


if __name__ == "__main__":
    sys.exit(main(sys.argv[1:]))
