"""C07 obligations (DESIGN §4.7)."""
from vp.runner import Ob, finding_open

INFO = {
    "design_ref": "§4.7",
    "functions": ["v2patterns._compile_pattern_re", "v2patterns._replace_pattern_parts", "v2patterns.compile_pattern", "v2patterns.normalize_pattern",
                  "v1patterns.compile_pattern", "v1patterns._compile_pattern_re",
                  "patterns.RE_PATTERN_ESCAPES", "v2version._format_segment"],
    "bounds": "literal text over printable ASCII without upper-case letters and bare brackets: every string of length 1..2 (quick) / 1..3 "
              "(thorough) for the homomorphism, every single character for the LITERAL audit (finite: enumeration, stated), "
              "one character either side of a real part; v1 and v2 engines",
    "outside": "literal text that spells a part name (upper case is excluded by the property); longer texts follow from the homomorphism "
               "(argued: concatenation of LITERAL nodes matches exactly the concatenated text; semantics of re trusted)",
    "stubs": ["re.compile -> identity inside v2patterns/v1patterns, so that the regex source is the observation"],
    "assumptions": ["CPython's re._parser gives the meaning of a regex source"],
}
KEY_PIPE = "C07:unescaped '|' in literal pattern text"
KEY_ANCHOR = "C07:'^' / '$' in the middle of a pattern"
KEY_BACKSLASH = "C07:backslash followed by a non-bracket character in a v2 pattern"


def obligations(tier):
    obs = []
    ln = 2 if tier == "quick" else 3
    t = 300 if tier == "quick" else 1500
    for eng in ("v2", "v1"):
        exclude = ""
        if finding_open(KEY_PIPE):
            exclude += "|"
        if finding_open(KEY_ANCHOR):
            exclude += "^$"
        if finding_open(KEY_BACKSLASH) and eng == "v2":
            exclude += "\\"
        base = {"engine": eng, "len": ln, "exclude": exclude}
        obs.append(Ob(f"L1.homomorphism[{eng}]", "c07.py", "homomorphism", base, timeout=t, bounds=f"len <= {ln}"))
        obs.append(Ob(f"L1.around_part[{eng}]", "c07.py", "around_part", base, timeout=t))
        obs.append(Ob(f"L1.entry_homomorphism[{eng}]", "c07.py", "entry_homomorphism", base, timeout=t, bounds=f"len <= {ln}"))
        obs.append(Ob(f"L2.single_char_literal[{eng}]", "c07.py", "single_char_literal", base, timeout=t))
        if finding_open(KEY_ANCHOR):
            obs.append(Ob(f"L2.mid_anchor_literal[{eng}; known]", "c07.py", "mid_anchor_literal", {"engine": eng}, expect="known",
                          finding=KEY_ANCHOR, timeout=60))
        else:
            obs.append(Ob(f"L2.mid_anchor_literal[{eng}]", "c07.py", "mid_anchor_literal", {"engine": eng}, timeout=60))
        if finding_open(KEY_PIPE):
            obs.append(Ob(f"L2.single_char_literal[{eng}; known: pipe]", "c07.py", "single_char_literal",
                          {"engine": eng, "only": "|", "exclude": "".join(c for c in map(chr, range(32, 127)) if c != "|")},
                          expect="known", finding=KEY_PIPE, timeout=60))
        if finding_open(KEY_BACKSLASH) and eng == "v2":
            obs.append(Ob("L2.single_char_literal[v2; known: backslash]", "c07.py", "single_char_literal",
                          {"engine": eng, "only": "\\", "exclude": "".join(c for c in map(chr, range(32, 127)) if c != "\\")},
                          expect="known", finding=KEY_BACKSLASH, timeout=60))
    obs.append(Ob("L3.render_literal", "c07.py", "render_literal", {"len": ln + 1}, timeout=t))
    obs.append(Ob("twin.some_char_escaped", "c07.py", "twin_no_escape", {}, expect="refute", timeout=60))
    return obs
