"""Path isolation: CrossHair executes every path in the same process, so state that a change under test keeps in a mutable default
argument (or a module-level container of the rewritten modules) would leak from one explored path into the next and produce
counterexamples that do not replay in a fresh process. Harnesses call reset_mutable_defaults() first, which gives every path the
state a fresh process has. (State that persists *within* one run, e.g. between the files of one update, is kept: that is the
behaviour under test.)"""
import types


def reset_mutable_defaults(*modules):
    for mod in modules:
        for obj in vars(mod).values():
            if isinstance(obj, types.FunctionType) and obj.__module__ == mod.__name__:
                for d in (obj.__defaults__ or ()):
                    if isinstance(d, (set, list, dict)):
                        d.clear()
                for d in (obj.__kwdefaults__ or {}).values():
                    if isinstance(d, (set, list, dict)):
                        d.clear()


_SNAPSHOTS = {}


def snapshot_module_state(*modules):
    """remember the import-time content of module-level dict/list/set objects (call once, at harness import)"""
    import copy
    for mod in modules:
        snap = {}
        for name, obj in vars(mod).items():
            if isinstance(obj, (dict, list, set)) and not name.startswith("__"):
                try:
                    snap[name] = (obj, copy.deepcopy(obj))
                except Exception:  # noqa
                    pass
        _SNAPSHOTS[mod.__name__] = snap


def restore_module_state(*modules):
    """put every remembered container back to its import-time content, in place (fresh-process semantics for each path)"""
    import copy
    for mod in modules:
        for name, (obj, orig) in _SNAPSHOTS.get(mod.__name__, {}).items():
            if obj != orig:
                if isinstance(obj, list):
                    obj[:] = copy.deepcopy(orig)
                else:
                    obj.clear()
                    obj.update(copy.deepcopy(orig))
