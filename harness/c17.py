"""C17 — BUILD numbers grow numerically and lexically forever.

Real code: v2version._incr_numeric (the '< 1000' padding rule) + lexid.next_id as shipped; v2patterns part regexes for BUILD/BLD
and _fmt_bld via format_version / parse_version_info (rendering lemma).
One-step lemma from an arbitrary id of a class (z leading zeros, m significant digits); every output lies in a class again,
so chains of any length are covered by induction until the documented maximum (all digits 9).
"""
import vp.chpatch  # noqa
import json
import os

from bumpver import v2version

P = json.loads(os.environ.get("VP_PARAMS", "{}"))
Z = P.get("z", 0)
M = P.get("m", 4)
LO = 0 if M == 1 else 10 ** (M - 1)
HI = 10 ** M - 1
if Z == 0:
    HI -= 1  # all digits 9: the documented maximum of the scheme (lexid raises OverflowError)

BASE = v2version.parse_field_values_to_vinfo({'year_y': "2020"})


BUMP_PATTERN = P.get("bump_pattern", "YYYY.BUILD")


def bump_bid(bid: str) -> str:
    old = BASE._replace(bid=bid, tag="beta", pytag="b", num=3)
    new = v2version._incr_numeric(BUMP_PATTERN, old, old, major=False, minor=False, patch=False, tag=None, tag_num=False,
                                  pin_increments=False)
    return new.bid


def _digits(s: str) -> bool:
    for c in s:
        if not ("0" <= c <= "9"):
            return False
    return len(s) > 0


def build_step(v: int) -> bool:
    """
    pre: LO <= v <= HI
    post: _
    """
    old = "0" * Z + str(v)
    new = bump_bid(old)
    if not isinstance(new, str):
        return False  # the id is text (leading zeros are part of it)
    if not _digits(new):
        return False
    if not int(new) > v:
        return False
    if len(new) < 4 or len(new) > max(len(old), 4) + 1:
        return False  # closure: the successor is again an id of a covered class
    if len(old) >= 4 and not new > old:
        return False  # plain string order, at once for ids of four or more digits
    if v >= 1000:
        if len(new) < len(old):
            return False  # leading zeros / width never lost
        if new[0] == old[0] and len(new) != len(old):
            return False  # width only grows when the first digit rolls over
    return True


def build_rendering(v: int) -> bool:
    """the id is written and read back byte for byte (zero padding of any width included)
    pre: LO <= v <= HI
    post: _
    """
    from bumpver import version
    bid = "0" * Z + str(v)
    text = v2version.format_version(BASE._replace(bid=bid), "vYYYY.BUILD")
    if text != "v2020." + bid:
        return False
    try:
        got = v2version.parse_version_info(text, "vYYYY.BUILD")
    except version.PatternError:
        return False
    return got.bid == bid


def build_second_step(v: int) -> bool:
    """ids shorter than four digits: from the first bumpver-generated value on, every step is also a string increase
    pre: LO <= v <= HI and M <= 3 and Z + M <= 3
    post: _
    """
    old = "0" * Z + str(v)
    first = bump_bid(old)
    second = bump_bid(first)
    return int(first) > v and int(second) > int(first) and second > first and len(second) >= len(first) >= 4


def twin_step_always_same_width(v: int) -> bool:
    """reachability twin (must be refuted): some id expands (999 -> 11000 style jump)
    pre: 1000 <= v <= 9998
    post: _
    """
    return len(bump_bid(str(v))) == 4
