"""tools/gen_inventory.py — regenerates the B.7 lemma inventory table of DESIGN.md from vp/props/*.py (counts per family and tier)."""
import importlib, re, sys, collections
sys.path.insert(0, "/verif")
IDS = ["C01", "C02", "C03", "C04", "C05", "C06", "C07", "C09", "C10", "C11", "C12", "C13", "C14", "C15", "C16", "C17", "C18", "C19", "C20"]
rows = []
for pid in IDS:
    mod = importlib.import_module(f"vp.props.{pid.lower()}")
    fam = collections.OrderedDict()
    for tier in ("quick", "thorough"):
        for o in mod.obligations(tier):
            name = re.split(r"[\[(]", o.name)[0].strip()
            fn = o.module[:-3] + "." + o.func
            if o.source:
                m = re.search(r"return (c\d\d\.\w+)\(", o.source)
                fn = f"{o.module[:-3]}.ob→{m.group(1)}" if m else fn
            fam.setdefault((name, fn), {"quick": 0, "thorough": 0})[tier] += 1
    for (name, fn), c in fam.items():
        rows.append(f"| {pid} | {name} (`{fn}`) | {c['quick']} | {c['thorough']} |")
table = "| property | lemma family (harness function) | quick | thorough |\n|----------|---------------------------------|-------|----------|\n" + "\n".join(rows) + "\n"
p = "/verif/DESIGN.md"
s = open(p).read()
a = s.index("| property | lemma family (harness function) | quick | thorough |")
b = s.index("\n\n", a)
s = s[:a] + table.rstrip("\n") + s[b:]
open(p, "w").write(s)
print(len(rows), "rows")
