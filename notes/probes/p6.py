import chfix, logging; logging.disable(logging.CRITICAL)
import typing as typ
from bumpver import v2version, version, cli

BASE = v2version.parse_field_values_to_vinfo({'year_y': "2020", 'month': "10", 'dom': '15'})

def gt(major_v: int, minor_v: int, f_major: bool, f_minor: bool) -> bool:
    """
    pre: 1 <= major_v <= 1200 and 0 <= minor_v <= 1200
    post: _
    """
    v = BASE._replace(major=major_v, minor=minor_v)
    old = v2version.format_version(v, "vMAJOR.MINOR")
    new = v2version.incr(old, "vMAJOR.MINOR", major=f_major, minor=f_minor)
    if new is None:
        return True
    if not cli._is_valid_version("vMAJOR.MINOR", old, new):
        return True
    # oracle
    w = v2version.parse_version_info(new, "vMAJOR.MINOR")
    return (w.major, w.minor) > (major_v, minor_v)
