"""C02 obligations (DESIGN §4.2)."""
import itertools
import json

from vp import grammar, refmodel as rm, symcal, gen
from vp.runner import Ob, finding_open

INFO = {
    "design_ref": "§4.2",
    "functions": ["v2version.format_version", "v2version._format_part_values", "v2version._parse_segtree", "v2version._format_segment",
                  "v2version._format_segment_tree", "v2patterns.compile_pattern", "v2patterns._compile_pattern_re",
                  "v2patterns._replace_pattern_parts", "v2patterns.PART_PATTERNS/PART_FORMATS", "v2version.parse_version_info",
                  "v2version.parse_field_values_to_vinfo", "v2version.parse_field_values_to_cinfo", "version.date_from_doy"],
    "bounds": "L2: each of the 29 documented parts alone over its whole domain (years 1000..9999, two-digit years 2001..2099, "
              "numeric parts 0..12000, BUILD 3..6 digits with 0..2 leading zeros, every tag); L3: patterns of the grammar with every "
              "part symbolic, numeric parts 0..99 (quick) / 0..999 (thorough), one obligation per digit-length class combination; "
              "full-date patterns over every real date 1000..9999",
    "outside": "GITHASH/HEXHASH parts; a field used twice in one pattern; patterns that glue a variable-width part to a following numeric "
               "part (YYUU, GGVV: '110' is (1, 10) and (11, 0) alike - ambiguous by construction, grammar.glued_ambiguous); states with the "
               "final tag and a tag number (unreachable by bumping: C05 numeric step, run here as L5); numeric parts above the bound; BUILD ids of 7+ digits; "
               "the second rendering (render(parse(text)) == text) is executed only in the shards marked rerender; elsewhere it is argued "
               "from determinism of format_version on equal part values",
    "stubs": ["calendar stub vp.symcal bound to v2version.dt/version.dt where the reader reconstructs a date "
              "(validated against datetime/strftime on every run)"],
    "assumptions": ["value domains of calendar fields are those cal_info can produce (C14-L1 / symcal validation)"],
}

KEY_WEEK53 = "C02:week number 53 rendered by WW/0W/UU/0U"

ZEROABLE = {"MAJOR", "MINOR", "PATCH", "NUM", "INC0"}
PADDED = set(rm.PAD)

QUICK_L3 = ["vMAJOR.MINOR[.PATCH[-TAG[NUM]]]", "MAJOR.MINOR.PATCH[PYTAGNUM]", "YYYY.MM[.INC0]", "vYYYY0M.BUILD[-TAG]",
            "vYYYY.WW[-TAGNUM]", "YYYY.0M.0D", "vYYYYdJJJ.BLD[-TAG]", "YY.0M.PATCH", "vGGGGw0V.BUILD[-TAG]"]
SINGLE_PARTS = [p for p in rm.PARTS]


def l2_pattern(part):
    """sub-year calendar parts are read in the company of their year (a pattern of a lone week number is not a version)"""
    f = rm.PARTS[part]
    if f in ("week_v",):
        return "GGGG." + part
    if f in ("quarter", "month", "week_w", "week_u", "doy"):
        return "YYYY." + part
    if f == "dom":
        return "YYYY.0M." + part
    return part


def validations(tier):
    return [("calendar stub vs datetime/strftime", lambda: symcal.validate(tier))]


def part_classes(part, hi, tier):
    """digit-length classes of the state value behind one part: list of (lo, hi)"""
    f = rm.PARTS[part]
    if part in ("YYYY", "GGGG"):
        return [(1000, 9999)]
    if part in ("YY", "GG"):
        return [(2001, 2009), (2010, 2099)]
    if part in ("0Y", "0G"):
        return [(2001, 2099)]
    if f in grammar.CAL_DOMAIN:
        lo, h = grammar.CAL_DOMAIN[f]
        if part in PADDED or part == "Q":
            return [(lo, h)]
        return grammar.digit_classes(lo, h)
    if part == "BUILD":
        return None  # handled through (zeros, value class) shards
    if part == "BLD":
        return None
    lo = 1 if part == "INC1" else 0
    return grammar.digit_classes(lo, hi)


def bid_shards(part, tier):
    """(zeros, lo, hi)"""
    if part == "BLD":
        sh = [(0, 1000, 9999)]
        if tier != "quick":
            sh += [(0, 10000, 99999), (0, 1, 9), (0, 10, 99), (0, 100, 999)]
        return sh
    sh = [(0, 1000, 9999), (1, 100, 999)]
    if tier != "quick":
        sh += [(0, 10000, 99999), (0, 100000, 999999), (2, 10, 99), (3, 1, 9), (0, 100, 999), (1, 1000, 9999), (2, 1000, 9999)]
    return sh


def shards(pattern, hi, tier):
    """yield (ints, params_extra, label) for every digit-class combination of the pattern's numeric parts"""
    g = grammar.info(pattern)
    per_field = {}
    bid_part = None
    for part in g["parts"]:
        f = rm.PARTS[part]
        if f in ("tag", "pytag"):
            continue
        if f == "bid":
            bid_part = part
            continue
        cls = part_classes(part, hi, tier)
        if f in per_field:
            # field used through two parts: intersect class boundaries
            cls = [c for c in cls if any(c[0] <= d[1] and d[0] <= c[1] for d in per_field[f])]
        per_field[f] = cls
    names = list(per_field)
    bids = bid_shards(bid_part, tier) if bid_part else [None]
    for combo in itertools.product(*[per_field[n] for n in names]):
        for b in bids:
            ints = [("o_" + n, lo, h) for n, (lo, h) in zip(names, combo)]
            extra = {}
            label = ",".join(f"{n}:{lo}..{h}" for n, (lo, h) in zip(names, combo))
            if b:
                ints.append(("o_bid", b[1], b[2]))
                extra["bid_zeros"] = b[0]
                label += f",bid:{'0' * b[0]}{b[1]}..{b[2]}"
            yield ints, extra, label


def make(pattern, func, ints, extra, label, t, expect="confirm", finding=None, name=None):
    g = grammar.info(pattern)
    if func == "roundtrip" and g["flavour"] == "fulldate" and not extra.get("rerender"):
        func = "roundtrip_text"
        name = (name or f"roundtrip[{pattern}; {label}]").replace("roundtrip", "roundtrip_text") + " (text half)"
    fs = set(g["fields"])
    has_tag = "tag" in fs or "pytag" in fs
    ints = list(ints)
    fixed = {}
    if has_tag:
        ints.append(("tag_i", 0, len(rm.TAGS) - 1))
    else:
        fixed["tag_i"] = 0
    vals = "{" + ", ".join(f'"{n[2:]}": {n}' for n, _lo, _h in ints if n.startswith("o_")) + "}"
    pres = [f"c02.nonempty({vals}, tag_i)"] if func in ("roundtrip", "roundtrip_text") else []
    if ("pytag" in fs or "tag" in fs) and "num" in fs:
        pres.append(f"c02.reachable_tagnum({vals}, tag_i)")
    if g["flavour"] == "fulldate":
        pres.append(f"c02.coherent({vals})")
    if any(p in ("WW", "0W", "UU", "0U") for p in g["parts"]):
        pres.append(f"c02.week_class_ok({vals})")
    call = f"c02.{func}({vals})" if func == "derive_fields" else f"c02.{func}({vals}, tag_i)"
    src = gen.wrapper("c02", call, ints=ints, fixed=fixed, pres=pres,
                      header=f"C02 {func} pattern {pattern!r} shard {label}")
    params = dict({"pattern": pattern}, **extra)
    return Ob(name or f"{func}[{pattern}; {label}]", "c02.py", "ob", params, timeout=t, source=src, bounds=label, expect=expect,
              finding=finding)


def obligations(tier):
    obs = []
    t = 240 if tier == "quick" else 1200
    hi = 99 if tier == "quick" else 999
    open53 = finding_open(KEY_WEEK53)
    # L2: every documented part on its own, over its whole domain
    for part in SINGLE_PARTS:
        if part in ("TAG", "PYTAG"):
            obs.append(make(part, "roundtrip", [], {}, "all tags", t, name=f"L2.part[{part}]"))
            continue
        pat = l2_pattern(part)
        for ints, extra, label in shards(pat, 12000 if tier != "quick" else 1200, tier):
            weeky = part in ("WW", "0W", "UU", "0U")
            ex = dict(extra)
            if weeky and open53:
                ex["exclude_week53"] = True
            obs.append(make(pat, "roundtrip", ints, ex, label, t, name=f"L2.part[{part} in {pat}; {label}]"))
        if part in ("WW", "0W", "UU", "0U") and open53:
            f = rm.PARTS[part]
            obs.append(make(pat, "roundtrip", [("o_year_y", 1000, 9999), ("o_" + f, 53, 53)], {"only_week53": True}, "53", t,
                            expect="known", finding=KEY_WEEK53, name=f"L2.part[{part} in {pat}; known: week 53]"))
    # L3: composition per pattern
    pats = QUICK_L3 if tier == "quick" else sorted(set(QUICK_L3 + [p for p in grammar.G_DOC if not grammar.glued_ambiguous(p)]))
    for pat in pats:
        weeky = any(p in ("WW", "0W", "UU", "0U") for p in grammar.info(pat)["parts"])
        for ints, extra, label in shards(pat, hi, tier):
            ex = dict(extra)
            if weeky and open53:
                ex["exclude_week53"] = True
            obs.append(make(pat, "roundtrip", ints, ex, label, t, name=f"L3.roundtrip[{pat}; {label}]"))
    # calendar half of the full-date patterns (one obligation per pattern shape: which fields the reader starts from)
    for pat in sorted({l2_pattern(p) for p in SINGLE_PARTS} | set(pats)):
        g = grammar.info(pat)
        if g["flavour"] != "fulldate":
            continue
        calf = [f for f in rm.CAL_FIELDS if f in set(g["fields"])]
        ints = []
        for f in calf:
            lo, h = grammar.CAL_DOMAIN[f]
            if f in ("year_y", "year_g") and set(g["parts"]) & grammar.TWO_DIGIT_YEAR:
                lo, h = 2001, 2099
            ints.append(("o_" + f, lo, h))
        obs.append(make(pat, "derive_fields", ints, {}, "every date", t, name=f"L3.derive_fields[{pat}]"))
    # second rendering executed (not only argued) on two patterns
    for pat in ("vMAJOR.MINOR[.PATCH[-TAG[NUM]]]", "vYYYY0M.BUILD[-TAG]"):
        ints, extra, label = next(iter(shards(pat, 9 if tier == "quick" else 99, tier)))
        obs.append(make(pat, "roundtrip", ints, dict(extra, rerender=True), label, t, name=f"L3.rerender[{pat}; {label}]"))
    # L4: empty rendering <=> everything omitted; renderer == README reference renderer
    for pat in ("vMAJOR[.MINOR[.PATCH[-TAG]]]", "MAJOR.MINOR.PATCH[PYTAGNUM]", "YYYY.MM[.INC0]", "[MAJOR][.INC0]"):
        for ints, extra, label in shards(pat, 9 if tier == "quick" else 99, tier):
            obs.append(make(pat, "empty_iff_omitted", ints, extra, label, t, name=f"L4.empty_iff_omitted[{pat}; {label}]"))
            obs.append(make(pat, "render_matches_model", ints, extra, label, t, name=f"L4.render_matches_model[{pat}; {label}]"))
    # L5: which states bumping can reach (the excluded states (final, NUM > 0) of PYTAG patterns are unreachable): C05's numeric step
    from vp.props import c05 as _c05
    obs += [o for o in _c05.obligations("quick") if ("MAJOR.MINOR.PATCH[PYTAGNUM]" in o.name or "vYYYY.WW[-TAGNUM]" in o.name) and (o.name.startswith("L1.numeric_step")
                                                                                                 or o.name.startswith("L2b."))]
    obs.append(Ob("twin.some_rendering_accepted", "c02.py", "twin_never_parses", {}, expect="refute", timeout=60))
    return obs
