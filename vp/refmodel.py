"""Reference model of the README's pattern language and bump rules (DESIGN §2.8).

Written from the documentation, not from v2version.py. Works on plain ints and on CrossHair symbolic ints
(no data-dependent loops over values; only over the pattern, which is concrete).
State = dict field -> int | str | None with the field names of the version tuple.
"""

PARTS = {
    'YYYY': 'year_y', 'YY': 'year_y', '0Y': 'year_y', 'GGGG': 'year_g', 'GG': 'year_g', '0G': 'year_g',
    'Q': 'quarter', 'MM': 'month', '0M': 'month', 'DD': 'dom', '0D': 'dom', 'JJJ': 'doy', '00J': 'doy',
    'WW': 'week_w', '0W': 'week_w', 'UU': 'week_u', '0U': 'week_u', 'VV': 'week_v', '0V': 'week_v',
    'MAJOR': 'major', 'MINOR': 'minor', 'PATCH': 'patch', 'BUILD': 'bid', 'BLD': 'bid',
    'TAG': 'tag', 'PYTAG': 'pytag', 'NUM': 'num', 'INC0': 'inc0', 'INC1': 'inc1',
}
NAMES = sorted(PARTS, key=len, reverse=True)
CAL_FIELDS = ['year_y', 'year_g', 'quarter', 'month', 'dom', 'doy', 'week_w', 'week_u', 'week_v']
PAD = {'0Y': 2, '0G': 2, '0M': 2, '0D': 2, '00J': 3, '0W': 2, '0U': 2, '0V': 2}
PYTAG = {'final': '', 'alpha': 'a', 'beta': 'b', 'rc': 'rc', 'dev': 'dev', 'post': 'post', 'preview': 'rc'}
TAGS = ['final', 'alpha', 'beta', 'rc', 'dev', 'post']
RESET = {'major': 0, 'minor': 0, 'patch': 0, 'num': 0, 'inc0': 0, 'inc1': 1}


def parse_pattern(raw):
    """-> nested list of ('lit', text) | ('part', name) | ('opt', [...])"""
    pos = 0

    def seq(closing):
        nonlocal pos
        items, lit = [], ""
        while pos < len(raw):
            c = raw[pos]
            if c == "\\" and pos + 1 < len(raw) and raw[pos + 1] in "[]":
                lit += raw[pos + 1]
                pos += 2
                continue
            if c == "[":
                if lit:
                    items.append(('lit', lit))
                    lit = ""
                pos += 1
                items.append(('opt', seq(True)))
                continue
            if c == "]":
                assert closing
                pos += 1
                if lit:
                    items.append(('lit', lit))
                return items
            for n in NAMES:
                if raw.startswith(n, pos):
                    if lit:
                        items.append(('lit', lit))
                        lit = ""
                    items.append(('part', n))
                    pos += len(n)
                    break
            else:
                lit += c
                pos += 1
        assert not closing
        if lit:
            items.append(('lit', lit))
        return items

    return seq(False)


def parts_in_order(ast):
    out = []
    for kind, x in ast:
        if kind == 'part':
            out.append(x)
        elif kind == 'opt':
            out.extend(parts_in_order(x))
    return out


def fields_in_order(ast):
    return [PARTS[p] for p in parts_in_order(ast)]


def zpad(n, w):
    s = str(n)
    for k in range(1, w):
        if n < 10 ** k:
            return "0" * (w - k) + s
    return s


def fmt_part(name, st):
    v = st[PARTS[name]]
    if name in ('YY', 'GG'):
        return str(v % 100)
    if name in ('0Y', '0G'):
        return zpad(v % 100, 2)
    if name in PAD:
        return zpad(v, PAD[name])
    if name == 'BLD':
        return str(int(v))
    return str(v)


def is_zero(name, st):
    f = PARTS[name]
    if name in ('MAJOR', 'MINOR', 'PATCH', 'NUM', 'INC0'):
        return st[f] == 0
    if name == 'TAG':
        return st['tag'] == 'final'
    if name == 'PYTAG':
        return st['pytag'] == ''
    return False


def _render_items(ast, st):
    """-> (text, omit): a group is omitted when it has parts and all of them (incl. nested groups) are zero"""
    text, allzero, anypart = "", True, False
    for kind, x in ast:
        if kind == 'lit':
            text += x
        elif kind == 'part':
            anypart = True
            text += fmt_part(x, st)
            allzero = allzero and is_zero(x, st)
        else:
            t, z = _render_items(x, st)
            anypart = True
            allzero = allzero and z
            text += "" if z else t
    return text, (allzero and anypart)


def omitted(ast, st):
    """would this (sub)pattern be omitted entirely: it has parts and all of them are zero (no text is built)"""
    allzero, anypart = True, False
    for kind, x in ast:
        if kind == 'part':
            anypart = True
            allzero = allzero and is_zero(x, st)
        elif kind == 'opt':
            anypart = True
            allzero = allzero and omitted(x, st)
    return allzero and anypart


def render(ast, st):
    t, z = _render_items(ast, st)
    return "" if z else t


def visible(ast, st):
    """list of (part, shown?) in pattern order — which parts a rendering actually contains"""
    out = []

    def walk(items, shown):
        for kind, x in items:
            if kind == 'part':
                out.append((x, shown))
            elif kind == 'opt':
                _t, z = _render_items(x, st)
                walk(x, shown and not z)

    _t, z = _render_items(ast, st)
    walk(ast, not z)
    return out


def next_build(bid):
    """successor of a BUILD id (lexid): same width while the first digit is unchanged, else (value+1)*11"""
    if int(bid) < 1000:
        bid = str(int(bid) + 1000)
    n = len(bid)
    v = int(bid) + 1
    s = zpad(v, n) if v < 10 ** n else str(v)
    return s if s[0] == bid[0] else str(v * 11)


def cal_newer(st, cal, fields):
    """is the calendar content of `st` later than `cal`, on the given (pattern) calendar fields, most significant first"""
    known = [f for f in CAL_FIELDS if f in fields and st.get(f) is not None and cal.get(f) is not None]
    return [st[f] for f in known] > [cal[f] for f in known]


def bump_calendar(ast, st, cal, pin_date=False):
    """step 1: calendar parts come from the date unless pinned or the current version lies in the future"""
    fields = fields_in_order(ast)
    cur = dict(st)
    if not pin_date:
        if not cal_newer(st, cal, set(fields) | {'quarter'}):
            for f in CAL_FIELDS:
                if f in fields:
                    cur[f] = cal[f]
    return cur


def tag_num_refused(cur_tag, tag, tag_num):
    """--tag-num needs a non-final tag (given or current)"""
    return bool(tag_num) and (tag or cur_tag) == 'final'


def bump_numeric(ast, st, cur, major=False, minor=False, patch=False, tag=None, tag_num=False, pin_increments=False,
                 exact_build=True):
    """step 2: increments, tag switch, auto increments, BUILD successor, roll-over of everything right of a changed part.
    st = old state, cur = state after the calendar step"""
    fields = fields_in_order(ast)
    new = dict(cur)
    if major:
        new['major'] += 1
    if minor:
        new['minor'] += 1
    if patch:
        new['patch'] += 1
    if tag_num:
        new['num'] += 1
    if tag:
        if tag != new['tag']:
            new['num'] = 0
        new['tag'] = tag
        new['pytag'] = PYTAG[tag]
    if not pin_increments:
        new['inc0'] += 1
        new['inc1'] += 1
    if exact_build:
        new['bid'] = next_build(new['bid'])
    changed = False
    for f in fields:
        if changed and f in RESET:
            new[f] = RESET[f]
        elif f == 'bid':
            changed = True  # BUILD always increases
        elif new[f] != st[f]:
            changed = True
    return new


def bump(ast, st, cal, major=False, minor=False, patch=False, tag=None, tag_num=False, pin_increments=False,
         pin_date=False, exact_build=True):
    """README rules. st: old state; cal: today's calendar fields. -> new state, or None ('no version')."""
    cur = bump_calendar(ast, st, cal, pin_date)
    if tag_num_refused(cur['tag'], tag, tag_num):
        return None
    return bump_numeric(ast, st, cur, major, minor, patch, tag, tag_num, pin_increments, exact_build)


def same_visible_state(ast, a, b):
    for f in fields_in_order(ast):
        if a[f] != b[f]:
            return False
    return True
