"""C04 obligations (DESIGN §4.4)."""
from vp.runner import Ob

INFO = {
    "design_ref": "§4.4",
    "functions": ["rewrite.detect_line_sep", "v2rewrite.rfd_from_content", "v1rewrite.rfd_from_content", "v2rewrite.rewrite_lines",
                  "v1rewrite.rewrite_lines", "v2rewrite.rewrite_files", "v1rewrite.rewrite_files", "v2rewrite.iter_rewritten",
                  "rewrite.iter_path_patterns_items"],
    "bounds": "file content: every string of length <= 5 (quick) / 7 (thorough) over the alphabet {a, CR, LF, BOM, e-acute, NUL, '.', '$'} "
              "(all four line-ending regimes, with/without final newline), one match on any line at any span; "
              "split/join identity for contents of length <= 7 / 9; I/O contract: every open() issued",
    "outside": "longer contents (the code is position-oblivious: split/join/slice); the codec and the process locale themselves: the "
               "property's ASCII-locale observation is replaced by asserting newline='' and encoding='utf-8' on every open, which is what "
               "makes the behaviour locale independent; characters outside the 8-letter alphabet (no character is inspected besides CR/LF)",
    "stubs": ["vp.fakere.FakeRe (span is an input)", "vp.memfs in-memory file system recording every open(path, mode, newline, encoding)"],
    "assumptions": ["CPython's utf-8 codec and newline='' pass text through unchanged"],
}


def obligations(tier):
    obs = []
    ln = 5 if tier == "quick" else 7
    t = 300 if tier == "quick" else 1500
    for legacy in (False, True):
        eng = "v1" if legacy else "v2"
        for n in range(1, ln + 1):
            for k in range(0, n):
                if k > (2 if tier == "quick" else 4):
                    continue
                obs.append(Ob(f"L1.content_roundtrip[{eng}; len {n}, match on line {k}]", "c03.py", "content_roundtrip",
                              {"legacy": legacy, "len": n, "klo": k, "khi": k}, timeout=t, bounds=f"len(content) == {n}"))
        obs.append(Ob(f"L2.io_contract[{eng}]", "c03.py", "io_contract", {"legacy": legacy}, timeout=60))
    obs.append(Ob("L1.split_join_identity", "c03.py", "split_join_identity", {"len": ln}, timeout=t, bounds=f"len(content) <= {ln + 2}"))
    # which matches are rewritten at all: a match overlapping an earlier one (also one that strictly contains it) is skipped,
    # otherwise two replacements would cut the same line at stale offsets
    obs.append(Ob("L3.has_overlap_spec", "c03.py", "has_overlap_spec", {}, timeout=t, bounds="spans in 0..20 on 3 lines"))
    for legacy in (False, True):
        obs.append(Ob(f"L4.real_anchored_first_line[{'v1' if legacy else 'v2'}]", "c03.py", "real_anchored_first_line", {"legacy": legacy},
                      timeout=t, bounds="BOM present/absent, 0..2 characters of the digit-free alphabet after the version, three line endings"))
    obs.append(Ob("twin.some_rewrite", "c03.py", "twin_never_rewrites", {}, expect="refute", timeout=60))
    return obs
