"""C10 obligations (DESIGN §4.10): assume-guarantee chain over the update pipeline."""
from vp.runner import Ob

INFO = {
    "design_ref": "§4.10",
    "functions": ["cli._parse_vcs_options", "cli.update (control skeleton)", "cli._update", "vcs.commit", "vcs.get_tags", "vcs.get_vcs_api",
                  "VCSAPI.fetch", "VCSAPI.get_remote", "VCSAPI.push", "VCSAPI.push_tag", "VCSAPI.ls_tags", "VCSAPI.ls_tags_branch", "hooks.run"],
    "bounds": "full lattice: config commit/tag/push (tag,push => commit) x tri-state --commit/--tag-commit/--push x hooks absent/present x "
              "dry x fetch x allow-dirty x ignore-vcs-tag x set-version x candidate/gate outcome x scope; failing step 0..8 of vcs.commit; "
              "remote present/absent; git and hg command tables; hook exit status -2..2 / IOError",
    "outside": "what git/hg do with the argv; click's option parsing; more than 2 configured files in vcs.commit (a for-loop over the set)",
    "stubs": ["recorders at module seams: config.init, cli._update_cfg_from_vcs, cli.incr_dispatch, cli._is_valid_version, cli._print_diff, "
              "cli._try_update (their contracts are the lemmas of C01/C09/C06/C13)", "subprocess.check_output/call argv recorder",
              "subprocess.Popen recorder for hooks", "os.path.exists for .git/.hg"],
    "assumptions": ["each seam recorder's contract is the postcondition checked for the real callee in its own lemma"],
}


def obligations(tier):
    t = 300 if tier == "quick" else 1200
    obs = [
        Ob("L1.parse_vcs_options", "c10.py", "parse_vcs_options", {}, timeout=t),
        Ob("L2.commit_sequence", "c10.py", "commit_sequence", {}, timeout=t),
        Ob("twin.update_reaches_writer", "c10.py", "twin_update_never_writes", {}, expect="refute", timeout=60),
        Ob("L3b.update_order(cli._update)", "c11.py", "update_order", {}, timeout=120),
        Ob("L5.hook_run", "c10.py", "hook_run", {}, timeout=t),
    ]
    import itertools
    for dry, sv, ign, gate in itertools.product((False, True), repeat=4):
        fix = {"dry": dry, "set": sv, "ign": ign, "gate": gate}
        label = ",".join(k if v else "!" + k for k, v in fix.items())
        obs.append(Ob(f"L3.update_skeleton[{label}]", "c10.py", "update_skeleton", {"fix": fix}, timeout=t))
    obs.append(Ob("L3.update_skeleton[--tag / --date / --pin-date validation]", "c10.py", "update_skeleton",
                  {"fix": {"dry": False, "ign": True, "gate": True, "validation": True, "f_commit": None, "f_tag": None, "f_push": None,
                           "c_commit": True, "c_tag": True, "c_push": False, "allow_dirty": False, "fetch": True, "verbose2": False,
                           "cli_msg": False, "scope": 0}}, timeout=t))
    # the dirty-check step itself, for both command sets (harness/c11.py)
    obs.append(Ob("L0.dirty_gate[git, 1 line]", "c11.py", "dirty_gate", {"n": 1, "k": [0, 0, 0]}, timeout=t))
    obs.append(Ob("L0.dirty_gate_hg", "c11.py", "dirty_gate_hg", {}, timeout=t))
    for tool in ("git", "hg"):
        obs.append(Ob(f"L4.get_tags_fetch[{tool}]", "c10.py", "get_tags_fetch", {"tool": tool}, timeout=t))
        obs.append(Ob(f"L4.push_needs_remote[{tool}]", "c10.py", "push_needs_remote", {"tool": tool}, timeout=t))
    return obs
