import chfix, logging; logging.disable(logging.CRITICAL)
import typing as typ
from bumpver import cli, vcs, config, version

PAT = "vMAJOR.MINOR"
BASECFG = config.Config("v1.2", PAT, "1.2", "m", "t", config.TagScope.DEFAULT, "", "", False, False, False, True, {})

def _run(tags, cfgver, scope_i):
    scope = [config.TagScope.DEFAULT, config.TagScope.GLOBAL, config.TagScope.BRANCH][scope_i]
    cfg = BASECFG._replace(current_version=cfgver, tag_scope=scope)
    orig = vcs.get_tags
    vcs.get_tags = lambda fetch, scope: list(tags)
    try:
        out = cli._update_cfg_from_vcs(cfg, False)
    finally:
        vcs.get_tags = orig
    for i, t in enumerate(tags):
        if out.current_version is t:
            return i
    return -1 if out.current_version is cfgver else -2

def one_tag(a0: int, a1: int, c0: int, c1: int, scope_i: int) -> int:
    """
    pre: 0 <= a0 <= 30 and 0 <= a1 <= 30 and 1 <= c0 <= 30 and 0 <= c1 <= 30 and 0 <= scope_i <= 2
    pre: a0 + a1 > 0
    post: _ == (-1 if (scope_i == 0 and (c0, c1) >= (a0, a1)) else 1)
    """
    return _run(["junk", "v" + str(a0) + "." + str(a1), "1.2.3"], "v" + str(c0) + "." + str(c1), scope_i)

def two_tags(a0: int, a1: int, b0: int, b1: int) -> int:
    """
    pre: 0 <= a0 <= 30 and 0 <= a1 <= 30 and 0 <= b0 <= 30 and 0 <= b1 <= 30
    pre: a0 + a1 > 0 and b0 + b1 > 0
    post: (_ == 0 and (a0, a1) >= (b0, b1)) or (_ == 1 and (b0, b1) >= (a0, a1))
    """
    return _run(["v" + str(a0) + "." + str(a1), "v" + str(b0) + "." + str(b1)], "v0.1", 1)
