"""Validation of the FakeRe seam (DESIGN §2.6): spans produced by the real compiled regex on the repo's rewrite fixtures are fed
through FakeRe; rewrite_lines must return what it returns with the real regex."""


def validate():
    from bumpver import v2rewrite, v2patterns, v2version, v1rewrite, v1patterns, v1version
    from vp.fakere import FakeRe
    errs, n = [], 0
    cases = [
        (False, "vYYYY0M.BUILD[-TAG]", ['__version__ = "{version}"'], "v201809.0123", ['__version__ = "v201809.0001-alpha"', "x"]),
        (False, "MAJOR.MINOR.PATCH", ['"{version}"', "pep {pep440_version}"], "1.2.4", ['v = "1.2.3"', "pep 1.2.3 x", "nothing"]),
        (False, "vYYYY.BUILD[-TAG]", ["{version}", "YYYY"], "v2021.1005-beta", ["v2020.1004-beta", "(c) 2020"]),
        (True, "{pycalver}", ['__version__ = "{pycalver}"', "{pep440_pycalver}"], "v201811.0123-beta",
         ['__version__ = "v201809.0002-beta"', "201809.2b0"]),
        (True, "{semver}", ["{version}"], "1.2.4", ["a 1.2.3 b"]),
    ]
    for legacy, vp, raws, new, lines in cases:
        mod, comp, ver = (v1rewrite, v1patterns, v1version) if legacy else (v2rewrite, v2patterns, v2version)
        vinfo = ver.parse_version_info(new, vp)
        real = [comp.compile_pattern(vp, r) for r in raws]
        want = mod.rewrite_lines(real, vinfo, lines)
        fake = []
        for p in real:
            spans = []
            for line in lines:
                m = p.regexp.search(line)
                spans.append(m.span() if m and len(m.group(0)) > 0 else None)
            fake.append(p._replace(regexp=FakeRe(spans)))
        got = mod.rewrite_lines(fake, vinfo, lines)
        n += 1
        if got != want:
            errs.append(f"{vp} {raws}: fake {got} != real {want}")
    return n, errs
