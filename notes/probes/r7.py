import chfix, logging; logging.disable(logging.CRITICAL)
import typing as typ, io, fnmatch
from bumpver import cli, config

cli._configure_logging = lambda verbose=0: None
SECTION_TOML = '[bumpver]\ncurrent_version = "2020.1001-alpha"\nversion_pattern = "YYYY.BUILD[-TAG]"\n'
SECTION_PYPROJECT = '[tool.bumpver]\ncurrent_version = "2020.1001-alpha"\nversion_pattern = "YYYY.BUILD[-TAG]"\n'
SECTION_CFG = '[bumpver]\ncurrent_version = 2020.1001-alpha\nversion_pattern = YYYY.BUILD[-TAG]\n'
UNRELATED = {"toml": '[other]\nx = 1', "cfg": '[metadata]\nname = x'}

class FS:
    def __init__(self, files): self.files = files; self.writes = []
class FakeFile(io.StringIO):
    def __init__(self, fs, name, mode):
        init = fs.files.get(name, "") if ("r" in mode or "a" in mode) else ""
        super().__init__(init)
        if "a" in mode: self.seek(0, 2)
        self.fs, self.name_, self.mode_ = fs, name, mode
    def close(self):
        if "w" in self.mode_ or "a" in self.mode_:
            self.fs.files[self.name_] = self.getvalue(); self.fs.writes.append(self.name_)
        super().close()
class FakeBin(io.BytesIO):
    pass
def mk(fs):
    class P:
        def __init__(self, p="."): self.p = str(p)
        def _norm(self): return self.p[2:] if self.p.startswith("./") else self.p
        def __truediv__(self, o): return P(o if self.p in (".", "/cwd") else self.p + "/" + str(o))
        def exists(self): return self._norm() in fs.files
        def open(self, mode="rt", encoding=None, newline=None):
            if "b" in mode: return FakeBin(fs.files[self._norm()].encode("utf-8"))
            return FakeFile(fs, self._norm(), mode)
        def is_absolute(self): return False
        @classmethod
        def cwd(cls): return P("/cwd")
        @property
        def suffix(self): return "." + self.p.rsplit(".", 1)[1] if "." in self.p.lstrip(".") else ""
        @property
        def name(self): return self.p.rsplit("/", 1)[-1]
        def glob(self, g): return [P(n) for n in sorted(fs.files) if fnmatch.fnmatch(n, g)]
        def __str__(self): return self._norm()
    return P

def init_ok(has_pyproject: bool, pyproject_cls: int, has_setupcfg: bool, setupcfg_cls: int, has_readme: bool, has_bumpver_toml: bool) -> bool:
    """
    pre: 0 <= pyproject_cls <= 2 and 0 <= setupcfg_cls <= 2
    post: _
    """
    files = {}
    if has_pyproject: files["pyproject.toml"] = ["", UNRELATED["toml"], SECTION_PYPROJECT][pyproject_cls]
    if has_setupcfg: files["setup.cfg"] = ["", UNRELATED["cfg"], SECTION_CFG][setupcfg_cls]
    if has_readme: files["README.md"] = "hello"
    if has_bumpver_toml: files["bumpver.toml"] = ""
    fs = FS(files); before = dict(files)
    configured = (has_pyproject and pyproject_cls == 2) or (has_setupcfg and setupcfg_cls == 2)
    orig = config.pl.Path
    config.pl.Path = mk(fs)
    orig_print = cli.print if hasattr(cli, "print") else None
    try:
        code = 0
        try:
            cli.init.callback(verbose=0, dry=False)
        except SystemExit as e:
            code = e.code
        if configured:
            return code == 1 and fs.files == before
        if code != 0 or len(fs.writes) != 1:
            return False
        name = fs.writes[0]
        if not fs.files[name].startswith(before.get(name, "")):
            return False
        ctx, cfg = config.init(project_path=".")
        return cfg is not None and ctx.config_rel_path == name and cfg.current_version.endswith(".1001-alpha")
    finally:
        config.pl.Path = orig
