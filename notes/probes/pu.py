import chfix, logging; logging.disable(logging.CRITICAL)
import lexid
from bumpver import v2version
BASE = v2version.parse_field_values_to_vinfo({'year_y': "2020"})

def bump_bid(bid: str) -> str:
    old = BASE._replace(bid=bid)
    new = v2version._incr_numeric("YYYY.BUILD", old, old, major=False, minor=False, patch=False, tag=None, tag_num=False, pin_increments=False)
    return new.bid

def step7(v: int) -> bool:
    """
    pre: 1000000 <= v <= 9999998
    post: _
    """
    old = str(v)
    new = bump_bid(old)
    return new > old and int(new) > v and len(new) >= 7

def step_z3_5(v: int) -> bool:
    """
    pre: 1000 <= v <= 9999
    post: _
    """
    old = "000" + str(v)
    new = bump_bid(old)
    return new > old and int(new) > v and len(new) >= 7

def step_small(v: int) -> bool:
    """
    pre: 0 <= v <= 999
    post: _
    """
    old = str(v)
    new = bump_bid(old)
    return int(new) > v and len(new) >= 4 and bump_bid(new) > new
