#!/bin/bash
# tools/mutant.sh <patch-file> <Cxx> [tier]  -- runs a check against a scratch worktree of /repo with the patch applied.
# exit code = the check's exit code (1 expected for a detected mutant). Evidence/replays go to a scratch dir, not /verif.
set -u
PATCH="$(readlink -f "$1")"; PID="$2"; TIER="${3:-quick}"
W="$(mktemp -d /tmp/vpmut.XXXXXX)"; rmdir "$W"
git -C /repo worktree add -q --detach "$W" HEAD || exit 3
cleanup() { git -C /repo worktree remove --force "$W" 2>/dev/null; rm -rf "$W" "$W.out"; }
trap cleanup EXIT
if ! git -C "$W" apply "$PATCH"; then echo "patch does not apply"; exit 3; fi
cd "$(dirname "$0")/.."
VP_REPO="$W" VP_OUT="$W.out" ./check "$PID" --tier "$TIER"
rc=$?
echo "mutant $(basename "$PATCH") on $PID: exit=$rc"
exit $rc
