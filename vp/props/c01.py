"""C01 obligations (DESIGN §4.1)."""
import itertools

from vp import grammar, refmodel as rm, gen
from vp.runner import Ob
from vp.props import c10 as _c10

INFO = {
    "design_ref": "§4.1",
    "functions": ["cli._is_valid_version", "cli.test (control skeleton and end to end)", "cli.update (control skeleton, via harness/c10.py)",
                  "cli._validate_flags", "cli._validate_date", "cli._validate_release_tag", "v2version.parse_version_info",
                  "version.parse_version", "setuptools_v65_version.Version/_cmpkey", "v2version.incr (end to end lemma)"],
    "bounds": "gate: old and new version rendered from two independent symbolic states of the pattern, numeric parts 0..99 "
              "(one obligation per digit-length class combination), every tag pair; patterns with dot-separated numeric parts; "
              "malformed targets = valid rendering + one of 6 trailing characters; uniqueness against 1..2 tags; "
              "command skeletons: all flag combinations; end to end: calendar-free patterns, parts 0..99",
    "outside": "numeric parts > 99 at the gate; --set-version targets that are arbitrary text (only the malformed families above); "
               "hand-written current versions with the final tag and a tag number ('v2020.9-final8': matches vYYYY.WW[-TAGNUM], is not "
               "PEP 440 text, compares below every version in pkg_resources' order - no bump and no accepted target produces one); "
               "patterns with glued numeric parts at the gate (their order is C14-L2's subject); click's own option parsing; "
               "calendar patterns end to end (C05 + gate + skeleton compose, DESIGN §4.1)",
    "stubs": ["command skeletons: cli.incr_dispatch and cli._is_valid_version recorded (their contracts are C05 and L1), click.echo captured",
              "vcs.get_tags -> symbolic tag list (uniqueness lemma)", "update skeleton stubs: see C10"],
    "assumptions": ["reference order vp/pep440ref.py (checked against the real _cmpkey by C16)"],
}

QUICK_GATE = ["MAJOR.MINOR", "MAJOR.MINOR[.PATCH]", "vYYYY.BUILD[-TAG]"]
THOROUGH_GATE = QUICK_GATE + ["vMAJOR.MINOR.PATCH", "MAJOR.MINOR.PATCH[PYTAGNUM]", "YYYY.MM[.INC0]", "vMAJOR.MINOR[.PATCH[-TAG[NUM]]]",
                              "vYYYY.WW[-TAGNUM]", "YYYY.MM.PATCH[PYTAGNUM]"]


def _classes(pattern, hi):
    g = grammar.info(pattern)
    out = {}
    for part in g["parts"]:
        f = rm.PARTS[part]
        if f in ("tag", "pytag"):
            continue
        if f == "bid":
            out[f] = [(1000, 9999)]
        elif f in ("year_y", "year_g"):
            out[f] = [(1000, 9999)]
        elif f in grammar.CAL_DOMAIN:
            lo, h = grammar.CAL_DOMAIN[f]
            if f in ("week_w", "week_u"):
                h = 52
            out[f] = grammar.digit_classes(lo, h)
        else:
            out[f] = grammar.digit_classes(1 if part == "INC1" else 0, hi)
    return g, out


QUICK_TAG_PAIRS = [(0, 0), (2, 0), (0, 2), (2, 3), (3, 2), (4, 1), (5, 0), (1, 1)]


def gate_obs(pattern, hi, t, all_small=False, quick=False):
    g, cls = _classes(pattern, hi)
    if all_small:
        cls = {f: [c[0]] for f, c in cls.items()}
    fs = set(g["fields"])
    has_tag = "tag" in fs or "pytag" in fs
    names = list(cls)
    combos = list(itertools.product(*[cls[n] for n in names]))
    for co, cn in itertools.product(combos, combos):
        ints = [("o_" + n, lo, h) for n, (lo, h) in zip(names, co)] + [("n_" + n, lo, h) for n, (lo, h) in zip(names, cn)]
        ov = "{" + ", ".join(f'"{n}": o_{n}' for n in names) + "}"
        nv = "{" + ", ".join(f'"{n}": n_{n}' for n in names) + "}"
        label = "old " + ",".join(f"{n}:{lo}..{h}" for n, (lo, h) in zip(names, co)) + " / new " + \
                ",".join(f"{n}:{lo}..{h}" for n, (lo, h) in zip(names, cn))
        tag_pairs = (QUICK_TAG_PAIRS if quick else list(itertools.product(range(6), repeat=2))) if has_tag else [(0, 0)]
        for ot, nt in tag_pairs:
            fixed = {"o_tag": ot, "n_tag": nt}
            lab = label + (f" tags {rm.TAGS[ot]}->{rm.TAGS[nt]}" if has_tag else "")
            src = gen.wrapper("c01", f"c01.gate({ov}, o_tag, {nv}, n_tag)", ints=ints, fixed=fixed,
                              pres=[f"c01.ok_state({ov}, o_tag) and c01.ok_state({nv}, n_tag)"], header=f"C01 gate {pattern} {lab}")
            yield Ob(f"L1.gate[{pattern}; {lab}]", "c01.py", "ob", {"pattern": pattern}, timeout=t, source=src, bounds=lab)


def aux_obs(pattern, hi, t):
    g, cls = _classes(pattern, hi)
    names = list(cls)
    rng = {n: (c[0][0], c[-1][1]) for n, c in cls.items()}
    small = {n: c[0] for n, c in cls.items()}
    ints = [("o_" + n, *small[n]) for n in names] + [("n_" + n, *small[n]) for n in names] + [("k", 0, 5)]
    ov = "{" + ", ".join(f'"{n}": o_{n}' for n in names) + "}"
    nv = "{" + ", ".join(f'"{n}": n_{n}' for n in names) + "}"
    src = gen.wrapper("c01", f"c01.gate_malformed({ov}, {nv}, k)", ints=ints,
                      pres=[f"c01.ok_state({ov}, 0) and c01.ok_state({nv}, 0)"], header=f"C01 gate_malformed {pattern}")
    yield Ob(f"L1.gate_malformed[{pattern}]", "c01.py", "ob", {"pattern": pattern}, timeout=t, source=src)
    if pattern == "MAJOR[.MINOR[.PATCH]]":
        ints2 = [("o_" + n, *small[n]) for n in names] + [("n_" + n, *small[n]) for n in names]
        src = gen.wrapper("c01", f"c01.gate_alt_spelling({ov}, {nv}, kind)", ints=ints2, fixed={"kind": 2},
                          pres=[f"c01.ok_state({ov}, 0) and c01.ok_state({nv}, 0)"], header=f"C01 gate_alt_spelling {pattern} kind 2")
        yield Ob(f"L1.gate_alt_spelling[{pattern}; every optional part written (1 -> 1.0.0)]", "c01.py", "ob",
                 {"pattern": pattern}, timeout=t, source=src)
        return
    if pattern == "MAJOR.MINOR[.PATCH]":
        for kind in (0, 1):
            ints2 = [("o_" + n, *small[n]) for n in names] + [("n_" + n, *small[n]) for n in names]
            src = gen.wrapper("c01", f"c01.gate_alt_spelling({ov}, {nv}, kind)", ints=ints2, fixed={"kind": kind},
                              pres=[f"c01.ok_state({ov}, 0) and c01.ok_state({nv}, 0)"], header=f"C01 gate_alt_spelling {pattern} kind {kind}")
            yield Ob(f"L1.gate_alt_spelling[{pattern}; {'explicit .0' if kind == 0 else 'leading zero'}]", "c01.py", "ob",
                     {"pattern": pattern}, timeout=t, source=src)
    ints = [("o_" + n, *small[n]) for n in names] + [("n_" + n, *small[n]) for n in names] + [("t_" + n, *small[n]) for n in names]
    tv = "{" + ", ".join(f'"{n}": t_{n}' for n in names) + "}"
    for same1, junk in itertools.product((False, True), repeat=2):
        src = gen.wrapper("c01", f"c01.gate_unique({ov}, {nv}, {tv}, same1, junk)", ints=ints, fixed={"same1": same1, "junk": junk},
                          pres=[f"c01.ok_state({ov}, 0) and c01.ok_state({nv}, 0) and c01.ok_state({tv}, 0)"],
                          header=f"C01 gate_unique {pattern}")
        yield Ob(f"L1.gate_unique[{pattern}; tag {'== new' if same1 else 'symbolic'}{', plus junk tag' if junk else ''}]", "c01.py", "ob",
                 {"pattern": pattern}, timeout=t, source=src)


def e2e_obs(pattern, hi, t):
    g, cls = _classes(pattern, hi)
    fs = set(g["fields"])
    has_tag = "tag" in fs or "pytag" in fs
    names = list(cls)
    for co in itertools.product(*[cls[n] for n in names]):
        ints = [("o_" + n, lo, h) for n, (lo, h) in zip(names, co)]
        fixed = {}
        if has_tag:
            ints += [("tag_i", 0, 5), ("newtag_i", 0, 6)]
        else:
            fixed = {"tag_i": 0, "newtag_i": 0}
        bools = ["f_major", "f_minor", "f_patch"] + (["f_tagnum"] if has_tag else [])
        if not has_tag:
            fixed["f_tagnum"] = False
        ov = "{" + ", ".join(f'"{n}": o_{n}' for n in names) + "}"
        label = ",".join(f"{n}:{lo}..{h}" for n, (lo, h) in zip(names, co))
        src = gen.wrapper("c01", f"c01.test_end_to_end({ov}, tag_i, f_major, f_minor, f_patch, newtag_i, f_tagnum)", ints=ints,
                          bools=bools, fixed=fixed, pres=[f"c01.ok_state({ov}, tag_i)"], header=f"C01 end to end {pattern} {label}")
        yield Ob(f"L4.test_end_to_end[{pattern}; {label}]", "c01.py", "ob", {"pattern": pattern}, timeout=t, source=src, bounds=label)


def _final_num_targets_refused():
    """supporting evidence for the states excluded at the gate (not a deciding step): concrete (final, NUM > 0) targets are refused.
    The symbolic form of this lemma does not finish (pkg_resources' legacy-version parser on a symbolic string)"""
    from bumpver import cli
    n, errs = 0, []
    for pat, olds, news in (("vYYYY.WW[-TAGNUM]", ["v2020.9", "v2020.9-beta1", "v2020.9-post2"], ["v2021.3-final%d", "v2020.9-final%d"]),
                            ("vMAJOR.MINOR[.PATCH[-TAG[NUM]]]", ["v1.2", "v1.2.3-rc1", "v0.0.1"], ["v9.9.9-final%d", "v1.2.3-final%d"])):
        for old in olds:
            for new in news:
                for k in range(1, 10):
                    n += 1
                    if cli._is_valid_version(pat, old, new % k) is not False:
                        errs.append(f"{pat}: {old} -> {new % k} accepted")
    return n, errs[:5]


def validations(tier):
    return [("(final, NUM>0) --set-version targets are refused (concrete table)", _final_num_targets_refused)]


def obligations(tier):
    obs = []
    t = 300 if tier == "quick" else 900
    hi = 99
    if tier == "quick":
        obs += list(gate_obs("MAJOR.MINOR", hi, t))
        obs += list(gate_obs("MAJOR.MINOR[.PATCH]", hi, t, all_small=True))
        obs += list(gate_obs("vYYYY.BUILD[-TAG]", hi, t, quick=True))
        for pat in ("MAJOR.MINOR", "MAJOR.MINOR[.PATCH]", "MAJOR[.MINOR[.PATCH]]"):
            obs += [o for o in aux_obs(pat, hi, t) if pat == "MAJOR.MINOR" or "alt_spelling" in o.name]
        obs += list(e2e_obs("vMAJOR.MINOR", 9, t))
    else:
        for pat in THOROUGH_GATE:
            obs += list(gate_obs(pat, hi, t, all_small=len(grammar.info(pat)["parts"]) > 3, quick=pat == "YYYY.MM.PATCH[PYTAGNUM]"))
            obs += list(aux_obs(pat, hi, t))
        for pat in ("vMAJOR.MINOR", "MAJOR.MINOR.PATCH", "MAJOR.MINOR[.PATCH]", "MAJOR.MINOR.PATCH[PYTAGNUM]"):
            obs += list(e2e_obs(pat, hi if pat == "vMAJOR.MINOR" else 9, t))
    obs.append(Ob("L2.test_skeleton", "c01.py", "test_skeleton", {}, timeout=t))
    obs.append(Ob("twin.test_announces", "c01.py", "twin_test_never_announces", {}, expect="refute", timeout=60))
    # L0: the version an update starts from (config value or newest tag, per scope) - C09's selection lemma
    from vp.props import c09 as _c09
    sel = [o for o in _c09.obligations(tier) if o.name.startswith("L2.select_tag") and ("scope 0" in o.name)]
    if tier == "quick":
        sel = [o for o in sel if "'c0': 0, 'c1': 0" in o.name or "digit-length crossing" in o.name]
    obs += sel
    # L3: the update command's skeleton (shared with C10)
    obs += [o for o in _c10.obligations(tier) if o.name.startswith("L3.update_skeleton") or o.name.startswith("twin.update")]
    return obs
