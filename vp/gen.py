"""Generated exact-signature harness wrappers (DESIGN §2.2): one obligation = one function `ob` whose PEP 316 contract carries
the bounds of the shard; the body is a single call into the hand-written harness module."""


def wrapper(module, call, ints=(), bools=(), strs=(), fixed=None, pres=(), header=""):
    """ints: [(name, lo, hi)], bools: [name], strs: [(name, maxlen)], fixed: {name: literal} (module-level constants),
    call: expression using the names. Names present in `fixed` are not arguments."""
    fixed = dict(fixed or {})
    args, rng = [], []
    for name, lo, hi in ints:
        if name in fixed:
            continue
        args.append(f"{name}: int")
        rng.append(f"{lo} <= {name} <= {hi}")
    for name in bools:
        if name not in fixed:
            args.append(f"{name}: bool")
    for name, maxlen in strs:
        if name not in fixed:
            args.append(f"{name}: str")
            rng.append(f"len({name}) <= {maxlen}")
    pre_lines = "".join(f"    pre: {p}\n" for p in ([" and ".join(rng)] if rng else []) + list(pres))
    fixed_lines = "".join(f"{k} = {v!r}\n" for k, v in fixed.items())
    return (
        f"# generated wrapper — {header}\n"
        f"import {module}\n\n"
        f"{fixed_lines}\n\n"
        f"def ob({', '.join(args)}) -> bool:\n"
        f'    """\n{pre_lines}    post: _\n    """\n'
        f"    return {call}\n"
    )
