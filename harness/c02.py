"""C02 — rendered versions are accepted by their own pattern and read back unchanged.

Real code: v2version.format_version (_format_part_values, _parse_segtree, _format_segment(_tree)), v2patterns.compile_pattern
(_compile_pattern_re, _replace_pattern_parts, PART_PATTERNS, PART_FORMATS), v2version.parse_version_info,
parse_field_values_to_vinfo / _cinfo, version.date_from_doy, v2version.cal_info.
Symbolic: every part value of the pattern (ints), the tag, leading zeros of BUILD (per shard).
Stub: calendar (vp.symcal) where the reader reconstructs a date.
"""
import vp.chpatch  # noqa
import json
import os

from bumpver import v2version, version
from vp import refmodel as rm
from vp import grammar, symcal

P = json.loads(os.environ.get("VP_PARAMS", "{}"))
PAT = P.get("pattern", "vMAJOR.MINOR[.PATCH[-TAG[NUM]]]")
BID_ZEROS = P.get("bid_zeros", 0)
NO_WEEK53 = P.get("exclude_week53", False)   # known finding S1: WW/0W/UU/0U render 53, the recogniser stops at 52
ONLY_WEEK53 = P.get("only_week53", False)
RERENDER = P.get("rerender", False)

G = grammar.info(PAT)
AST, FIELDS, PARTS = G["ast"], G["fields"], G["parts"]
FS = set(FIELDS)
TAGS = rm.TAGS
CALF = [f for f in rm.CAL_FIELDS if f in FS]
FULLDATE = G["flavour"] == "fulldate"
W_PARTS = [p for p in PARTS if p in ("WW", "0W", "UU", "0U")]


def week_class_ok(vals) -> bool:
    w53 = ("week_w" in FS and bool(W_PARTS) and "week_w" in vals and vals["week_w"] == 53 and any(p in ("WW", "0W") for p in PARTS)) \
        or ("week_u" in FS and "week_u" in vals and vals["week_u"] == 53 and any(p in ("UU", "0U") for p in PARTS))
    if NO_WEEK53 and w53:
        return False
    if ONLY_WEEK53 and not w53:
        return False
    return True


def _symdate(vals):
    if "doy" in FS:
        return symcal.SymDate(vals["year_y"], doy=vals["doy"])
    return symcal.SymDate(vals["year_y"], vals["month"], vals["dom"])


def coherent(vals) -> bool:
    """value combinations a real date can produce, where the reader reconstructs the date (else every value of each domain)"""
    if not FULLDATE:
        return True
    y = vals["year_y"]
    if "doy" in FS:
        if not vals["doy"] <= symcal.days_in_year(y):
            return False
    elif not vals["dom"] <= symcal.days_in_month(y, vals["month"]):
        return False
    d = _symdate(vals)
    key = {"year_g": "G", "week_w": "W", "week_u": "U", "week_v": "V", "month": "m", "dom": "d"}
    for k in CALF:
        if k in ("year_y", "doy") or (k in ("month", "dom") and "doy" not in FS):
            continue
        if k == "quarter":
            if vals[k] != symcal.quarter(d.month):
                return False
        elif vals[k] != d.field(key[k]):
            return False
    return True


def state(vals, tag_i):
    st = {f: None for f in rm.CAL_FIELDS}
    for f in CALF:
        st[f] = vals[f]
    if "month" in FS and "quarter" not in FS:
        st["quarter"] = (vals["month"] - 1) // 3 + 1
    tag = TAGS[tag_i]
    bid = "1000"
    if "bid" in FS:
        bid = "0" * BID_ZEROS + str(vals["bid"])
    st.update(major=vals.get("major", 0), minor=vals.get("minor", 0), patch=vals.get("patch", 0), num=vals.get("num", 0),
              inc0=vals.get("inc0", 0), inc1=vals.get("inc1", 1), bid=bid, tag=tag, pytag=rm.PYTAG[tag], githash="", hexhash="")
    return st


def reachable_tagnum(vals, tag_i) -> bool:
    """a tag number only exists together with a non-final tag: bumping never produces (final, NUM > 0) — `--tag final` resets NUM,
    `--tag-num` is refused on a final version (C05 numeric step, run under C02 as L5). PYTAG renders the final tag as nothing, and
    with TAG in a group of its own (`[-TAG][NUM]`) the number would be glued to the part before it"""
    return not (TAGS[tag_i] == "final" and vals.get("num", 0) != 0)


def nonempty(vals, tag_i) -> bool:
    return not rm.omitted(AST, state(vals, tag_i))


def roundtrip(vals, tag_i) -> bool:
    """render -> accepted in full by the recogniser of the same pattern -> same parts"""
    st = state(vals, tag_i)
    vinfo = version.V2VersionInfo(**st)
    text = v2version.format_version(vinfo, PAT)
    with symcal.Bound():
        try:
            got = v2version.parse_version_info(text, PAT)
        except version.PatternError:
            return False
    for f in FIELDS:
        if getattr(got, f) != st[f]:
            return False
    if ("tag" in FS or "pytag" in FS) and (got.tag != st["tag"] or got.pytag != st["pytag"]):
        return False
    if FULLDATE:
        # the reader derives every calendar field from the date: each must be the field of that name
        d = _symdate(vals)
        want = {"year_y": d.year, "year_g": d.field("G"), "quarter": symcal.quarter(d.month), "month": d.month, "dom": d.day,
                "doy": d.doy, "week_w": d.field("W"), "week_u": d.field("U"), "week_v": d.field("V")}
        for k in rm.CAL_FIELDS:
            if getattr(got, k) != want[k]:
                return False
    if RERENDER:
        return v2version.format_version(got, PAT) == text
    return True


def roundtrip_text(vals, tag_i) -> bool:
    """full-date patterns, text half: the rendering is accepted in full by the compiled recogniser and every group carries
    the rendered value (the calendar derivation from those values is derive_fields)"""
    from bumpver import v2patterns
    st = state(vals, tag_i)
    text = v2version.format_version(version.V2VersionInfo(**st), PAT)
    match = v2patterns.compile_pattern(PAT).regexp.match(text)
    if match is None or len(match.group()) != len(text):
        return False
    gd = match.groupdict()
    for part in PARTS:
        f = rm.PARTS[part]
        if f in ("tag", "pytag"):
            want_s = st[f]
            got_s = gd[f]
            if st["tag"] == "final" and got_s is None:
                continue
            if got_s != want_s:
                return False
        elif f == "bid":
            if gd[f] is None or int(gd[f]) != int(st["bid"]) or (part == "BUILD" and len(gd[f]) != len(st["bid"])):
                return False
        else:
            want = st[f] % 100 if part in grammar.TWO_DIGIT_YEAR else st[f]
            if gd[f] is None:
                if not (part in ("MAJOR", "MINOR", "PATCH", "NUM", "INC0") and st[f] == 0):
                    return False
            elif int(gd[f]) != want:
                return False
    return True


def derive_fields(vals) -> bool:
    """full-date patterns, calendar half: from the group values the reader derives every calendar field of that date
    (real parse_field_values_to_vinfo / _cinfo / date_from_doy on the calendar stub; no text involved)"""
    fvals = {}
    for f in CALF:
        v = vals[f]
        fvals[f] = symcal.FieldStr(v)
    with symcal.Bound():
        got = v2version.parse_field_values_to_vinfo(fvals)
    d = _symdate(vals)
    want = {"year_y": d.year, "year_g": d.field("G"), "quarter": symcal.quarter(d.month), "month": d.month, "dom": d.day,
            "doy": d.doy, "week_w": d.field("W"), "week_u": d.field("U"), "week_v": d.field("V")}
    for k in rm.CAL_FIELDS:
        if getattr(got, k) != want[k]:
            return False
    return True


def empty_iff_omitted(vals, tag_i) -> bool:
    """a rendering is the empty string exactly when every part of the pattern is zero (README: optional parts are omitted
    when zero) — the contract C05's Rendered stand-in relies on"""
    st = state(vals, tag_i)
    text = v2version.format_version(version.V2VersionInfo(**st), PAT)
    return (text == "") == rm.omitted(AST, st)


def render_matches_model(vals, tag_i) -> bool:
    """the real renderer and the README reference renderer agree character by character"""
    st = state(vals, tag_i)
    text = v2version.format_version(version.V2VersionInfo(**st), PAT)
    want = rm.render(AST, st)
    if len(text) != len(want):
        return False
    for a, b in zip(text, want):
        if a != b:
            return False
    return True


def twin_never_parses(major: int) -> bool:
    """reachability twin (must be refuted): some rendering is accepted
    pre: 0 <= major <= 99
    post: _
    """
    text = v2version.format_version(v2version.parse_field_values_to_vinfo({'major': "1"})._replace(major=major), "vMAJOR.MINOR")
    try:
        v2version.parse_version_info(text, "vMAJOR.MINOR")
    except version.PatternError:
        return True
    return False
