import chfix, logging; logging.disable(logging.CRITICAL)
import typing as typ, re, types
from bumpver import v2patterns, v1patterns

SPECIALS = ".*+?{}()-"
ALPHA = "".join(chr(c) for c in range(32, 127) if not chr(c).isupper() and chr(c) not in "[]|^$" and c != 92)

class ReShim:
    subn = staticmethod(re.subn)
    error = re.error
    @staticmethod
    def compile(s, flags=0):
        return s

def E(c):
    return ("\\" + c) if c in SPECIALS else c

def regex_source(lit: str) -> str:
    orig = v2patterns.re
    v2patterns.re = ReShim
    try:
        return v2patterns._compile_pattern_re(lit)
    finally:
        v2patterns.re = orig

def homo(lit: str) -> bool:
    """
    pre: 1 <= len(lit) <= 2 and all(c in ALPHA for c in lit)
    post: _
    """
    return regex_source(lit) == "".join(E(c) for c in lit)
