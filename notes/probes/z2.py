import z3, time
def ite(c, a, b):
    return z3.If(c, a, b) if z3.is_expr(c) else (a if c else b)
def And(*a): return z3.And(*a) if any(z3.is_expr(x) for x in a) else all(a)
def Or(*a): return z3.Or(*a) if any(z3.is_expr(x) for x in a) else any(a)
def leap(y): return ite(And(y % 4 == 0, Or(y % 100 != 0, y % 400 == 0)), 1, 0)
def dby(y):
    y1 = y - 1
    return y1 * 365 + y1 / 4 - y1 / 100 + y1 / 400 if z3.is_expr(y) else y1*365 + y1//4 - y1//100 + y1//400
def p(y): return (y + y / 4 - y / 100 + y / 400) % 7
def weeks(y): return ite(Or(p(y) == 4, p(y - 1) == 3), 53, 52)
def fields(y, j):
    wd = (dby(y) + j + 6) % 7
    W = (j + 6 - wd) / 7
    U = (j + 6 - (wd + 1) % 7) / 7
    wk = (j - wd + 9) / 7
    G = ite(wk < 1, y - 1, ite(wk > weeks(y), y + 1, y))
    V = ite(wk < 1, weeks(y - 1), ite(wk > weeks(y), 1, wk))
    CUM = [0, 31, 59, 90, 120, 151, 181, 212, 243, 273, 304, 334]
    L = leap(y)
    m = 1
    for k in range(1, 12):
        m = m + ite(j > CUM[k] + (L if k >= 2 else 0), 1, 0)
    return dict(Y=y, G=G, W=W, U=U, V=V, m=m)
def lex_le(a, b):
    if len(a) == 1: return a[0] <= b[0]
    return z3.Or(a[0] < b[0], z3.And(a[0] == b[0], lex_le(a[1:], b[1:])))
y, j = z3.Ints("y j")
diy = 365 + leap(y)
last = j == diy
y2 = z3.If(last, y + 1, y); j2 = z3.If(last, 1, j + 1)
f1, f2 = fields(y, j), fields(y2, j2)
for combo in [("Y","W"),("Y","U"),("G","V"),("Y","V"),("G","W"),("G","U"),("Y","m")]:
    s = z3.Solver(); s.set("timeout", 120000)
    s.add(y >= 1000, y <= 9998, j >= 1, j <= diy)
    s.add(z3.Not(lex_le([f1[k] for k in combo], [f2[k] for k in combo])))
    t = time.time(); r = s.check()
    print(combo, r, round(time.time() - t, 2), (s.model()[y], s.model()[j]) if str(r) == "sat" else "")
