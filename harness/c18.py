"""C18 — the same configuration means the same thing in every config format.

Real code: config.parse, _parse_raw_config, _parse_cfg (real configparser on the generated INI text), _parse_toml (post-decoder code),
_set_raw_config_defaults, _parse_config, _parse_current_version_default_pattern, _compile_file_patterns, init_project_ctx.
Symbolic: the *meaning* (commit, tag/push present and value, tag scope, which messages/hooks/files are configured) and the INI
spelling choices (boolean spelling, quoting). The TOML decoder is stubbed by contract: toml.load returns the native values the
generated TOML text denotes (that text/dict pair is validated against the real toml.loads on every run).
"""
import vp.chpatch  # noqa
import copy
import json
import os

from bumpver import config
from vp.memfs import MemFS, NS
from vp import hygiene

hygiene.snapshot_module_state(config)

P = json.loads(os.environ.get("VP_PARAMS", "{}"))
FIX = P.get("fix", {})
TOML_FILE = P.get("toml_file", "bumpver.toml")     # bumpver.toml | .bumpver.toml | pyproject.toml
LEGACY_SECTION = P.get("legacy_section", False)    # [pycalver] instead of [bumpver]

TRUE_SPELLINGS = ["True", "true", "yes", "1", "on", "YES"]
FALSE_SPELLINGS = ["False", "false", "no", "0", "off", "No"]
QUOTES = ['"', "'", ""]
SCOPES = [None, "default", "global", "branch"]
MESSAGES = [None, "bump {old_version} -> {new_version} (100% done)", "release {new_version_pep440}"]
FILESETS = [
    [],
    [("a.txt", ["{version}"])],
    [("a.txt", ["{version}", "v{pep440_version}"]), ("docs/*.md", ["Copyright YYYY"])],
    [("VERSION", ["{version}"]), ("Makefile", ["VERSION := {version}"]), ("src/Pkg_Name", ["{version}"])],   # names keep their case
]


def fx(name, value) -> bool:
    return FIX.get(name, value) == value


def _bool_text(val, k):
    return (TRUE_SPELLINGS if val else FALSE_SPELLINGS)[k]


HOOKS = [None, "hook.sh", "missing.sh"]      # absent / an existing script / a script that does not exist (both readers must refuse)


def build(commit, tag, push, scope, msg, files, spell, quote, own_listed, hook=0):
    """-> (ini_text, toml_text, toml_dict) of one meaning. tag/push: 0 absent, 1 False, 2 True"""
    q = QUOTES[quote]
    sec = "pycalver" if LEGACY_SECTION else "bumpver"
    ini = [f"[{sec}]", f"current_version = {q}1.2.3{q}", f'version_pattern = {q}MAJOR.MINOR.PATCH{q}', f"commit = {_bool_text(commit, spell)}"]
    tsec = "tool.bumpver" if TOML_FILE == "pyproject.toml" else sec
    toml = [f"[{tsec}]", 'current_version = "1.2.3"', 'version_pattern = "MAJOR.MINOR.PATCH"', f"commit = {'true' if commit else 'false'}"]
    d = {"current_version": "1.2.3", "version_pattern": "MAJOR.MINOR.PATCH", "commit": bool(commit)}
    for name, val in (("tag", tag), ("push", push)):
        if val:
            ini.append(f"{name} = {_bool_text(val == 2, spell)}")
            toml.append(f"{name} = {'true' if val == 2 else 'false'}")
            d[name] = val == 2
    if SCOPES[scope] is not None:
        ini.append(f"tag_scope = {q}{SCOPES[scope]}{q}")
        toml.append(f'tag_scope = "{SCOPES[scope]}"')
        d["tag_scope"] = SCOPES[scope]
    if MESSAGES[msg] is not None:
        ini.append(f"commit_message = {q}{MESSAGES[msg]}{q}")
        toml.append(f'commit_message = "{MESSAGES[msg]}"')
        d["commit_message"] = MESSAGES[msg]
    if HOOKS[hook] is not None:
        ini.append(f"pre_commit_hook = {q}{HOOKS[hook]}{q}")
        toml.append(f'pre_commit_hook = "{HOOKS[hook]}"')
        d["pre_commit_hook"] = HOOKS[hook]
    fileset = list(FILESETS[files])
    ini.append("")
    ini.append(f"[{sec}:file_patterns]")
    toml.append("")
    toml.append(f"[{tsec}.file_patterns]")
    fp = {}
    if own_listed:
        ini += ["setup.cfg =", '    current_version = "{version}"']
        toml += [f'"{TOML_FILE}" = [', "    'current_version = \"{version}\"',", "]"]
        fp[TOML_FILE] = ['current_version = "{version}"']
    for path, pats in fileset:
        ini.append(f"{path} =")
        ini += ["    " + p for p in pats]
        toml.append(f'"{path}" = [')
        toml += [f'    "{p}",' for p in pats]
        toml.append("]")
        fp[path] = list(pats)
    if fp or own_listed or files:
        d["file_patterns"] = fp
    else:
        # "0 files": the optional table is absent altogether
        toml = [ln for ln in toml if ln != f"[{tsec}.file_patterns]"]
    full = d
    if TOML_FILE == "pyproject.toml":
        full = {"tool": {"bumpver": d}}
    else:
        full = {sec: d}
    return "\n".join(ini) + "\n", "\n".join(toml) + "\n", full


def _parse(fname, text, toml_dict=None):
    fs = MemFS({fname: text, "a.txt": "1.2.3", "docs/x.md": "", "docs/y.md": "", "hook.sh": "#!/bin/sh",
                "VERSION": "1.2.3", "Makefile": "VERSION := 1.2.3", "src/Pkg_Name": "1.2.3"})
    saved = (config.pl, config.toml)
    config.pl = NS(Path=fs.Path)
    if toml_dict is not None:
        config.toml = NS(load=lambda fobj: copy.deepcopy(toml_dict))
    try:
        ctx = config.init_project_ctx(".")
        if ctx.config_rel_path != fname:
            return "wrong-file"
        return config.parse(ctx)
    finally:
        config.pl, config.toml = saved


def _norm(cfg, own):
    if cfg is None or cfg == "wrong-file":
        return cfg
    # the config file's own line is the line as written in that file: its quoting belongs to the file, not to the meaning
    pats = sorted((("<config>", p.raw_pattern.replace("'", '"').replace('= MAJOR.MINOR.PATCH', '= "MAJOR.MINOR.PATCH"')) if path == own
                   else (path, p.raw_pattern)) for path, ps in cfg.file_patterns.items() for p in ps)
    return (cfg.current_version, cfg.version_pattern, cfg.pep440_version, cfg.commit_message, cfg.tag_message, cfg.tag_scope,
            cfg.pre_commit_hook, cfg.post_commit_hook, cfg.commit, cfg.tag, cfg.push, cfg.is_new_pattern, tuple(pats))


def same_meaning(commit: bool, tag: int, push: int, scope: int, msg: int, files: int, spell: int, quote: int, own_listed: bool,
                 hook: int = 0) -> bool:
    """
    pre: 0 <= tag <= 2 and 0 <= push <= 2 and 0 <= scope <= 3 and 0 <= msg <= 2 and 0 <= files <= 3 and 0 <= spell <= 5 and 0 <= quote <= 2
    pre: 0 <= hook <= 2 and fx("hook", hook)
    pre: fx("spell", spell) and fx("quote", quote) and fx("files", files) and fx("msg", msg) and fx("own_listed", own_listed)
    post: _
    """
    hygiene.restore_module_state(config)
    hygiene.reset_mutable_defaults(config)
    ini_text, toml_text, toml_dict = build(commit, tag, push, scope, msg, files, spell, quote, own_listed, hook)
    a = _norm(_parse("setup.cfg", ini_text), "setup.cfg")
    b = _norm(_parse(TOML_FILE, toml_text, toml_dict), TOML_FILE)
    if a != b:
        return False
    if TOML_FILE == "bumpver.toml" and not LEGACY_SECTION:
        # a second project file of the other TOML name, read in the same process, means the same again
        toml_text2 = toml_text.replace('"bumpver.toml" = [', '".bumpver.toml" = [')
        d2 = copy.deepcopy(toml_dict)
        fp2 = d2["bumpver"].get("file_patterns")
        if fp2 and "bumpver.toml" in fp2:
            fp2[".bumpver.toml"] = fp2.pop("bumpver.toml")
        c = _norm(_parse(".bumpver.toml", toml_text2, d2), ".bumpver.toml")
        if c != a:
            return False
    must_reject = ((tag == 2 or push == 2) and not commit) or hook == 2
    if must_reject:
        return a is None
    if a is None:
        return False
    # and the meaning is the intended one
    want_scope = config.TagScope(SCOPES[scope] or "default")
    pats = set(a[12])
    if ("<config>", 'current_version = "MAJOR.MINOR.PATCH"') not in pats and ("<config>", 'current_version = "{version}"') not in pats \
            and ("<config>", 'current_version = "MAJOR.MINOR.PATCH"'.replace("{version}", "x")) not in pats:
        return False
    if a[6] != (HOOKS[hook] or ""):
        return False
    return (a[0] == "1.2.3" and a[8] == commit and a[9] == (tag == 2) and a[10] == (push == 2) and a[5] == want_scope
            and a[3] == (MESSAGES[msg] or config.DEFAULT_COMMIT_MESSAGE))


def twin_never_parses(commit: bool) -> bool:
    """reachability twin (must be refuted)
    post: _
    """
    ini_text, toml_text, toml_dict = build(commit, 0, 0, 0, 0, 0, 0, 0, True)
    return _parse("setup.cfg", ini_text) is None


def validate_toml_contract():
    """stub validation: the real toml decoder reads each generated TOML text as exactly the dict the stub returns"""
    import itertools
    import toml
    n, errs = 0, []
    for commit, tag, push, scope, msg, files, own, hook in itertools.product((False, True), range(3), range(3), range(4), range(3), range(3),
                                                                             (False, True), range(3)):
        _ini, text, d = build(commit, tag, push, scope, msg, files, 0, 0, own, hook)
        n += 1
        got = toml.loads(text)
        if got != d and len(errs) < 3:
            errs.append(f"toml.loads != stub dict for meaning {(commit, tag, push, scope, msg, files, own)}: {got} vs {d}")
    return n, errs
