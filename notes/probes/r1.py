import chfix, logging; logging.disable(logging.CRITICAL)
import typing as typ
from bumpver import cli, vcs, config

cli._configure_logging = lambda verbose=0: None
BASECFG = config.Config("1.2.3", "MAJOR.MINOR.PATCH", "1.2.3", "bump {old_version} -> {new_version}", "{new_version}", config.TagScope.DEFAULT, "", "", False, False, False, True, {"f.txt": []})
TB = typ.Optional[bool]

def upd(c_commit: bool, c_tag: bool, c_push: bool, f_commit: TB, f_tag: TB, f_push: TB, dry: bool, ignore_tag: bool, fetch: bool,
        have_new: bool, gate_ok: bool, use_set: bool, scope_i: int) -> typ.List[str]:
    """
    pre: (c_commit or not c_tag) and (c_commit or not c_push) and 0 <= scope_i <= 2
    post: ("try_update" in _) == (("gate" in _) and gate_ok and not dry and (have_new or use_set))
    post: ("gate" not in _) or (_.index("gate") < len(_) and (("vcs" in _) == (not ignore_tag)))
    post: ("try_update" not in _) or _[-1] == "try_update"
    post: ("try_update" in _) or dry or ("exit1" in _)
    """
    log: typ.List[str] = []
    scope = [config.TagScope.DEFAULT, config.TagScope.GLOBAL, config.TagScope.BRANCH][scope_i]
    cfg = BASECFG._replace(commit=c_commit, tag=c_tag, push=c_push, tag_scope=scope)
    saved = (config.init, cli._update_cfg_from_vcs, cli.incr_dispatch, cli._is_valid_version, cli._print_diff, cli._try_update)
    config.init = lambda project_path=".", cfg_missing_ok=False: (None, cfg)
    def fake_vcs(c, f):
        log.append("vcs"); assert f == fetch
        return c._replace(current_version="1.2.5")
    cli._update_cfg_from_vcs = fake_vcs
    cli.incr_dispatch = lambda old, **kw: ("1.2.9" if have_new else None)
    def gate(pat, old, new, unique=False):
        log.append("gate")
        assert pat == "MAJOR.MINOR.PATCH" and old == ("1.2.3" if ignore_tag else "1.2.5")
        assert new == ("9.9.9" if use_set else "1.2.9")
        assert unique == (scope_i == 2 or use_set)
        return gate_ok
    cli._is_valid_version = gate
    cli._print_diff = lambda c, n: log.append("diff")
    cli._try_update = lambda c, n, cm, tm, ad: log.append("try_update")
    try:
        cli.update.callback(dry=dry, ignore_vcs_tag=ignore_tag, fetch=fetch, patch=True, commit=f_commit, tag_commit=f_tag, push=f_push,
                            set_version=("9.9.9" if use_set else None))
    except SystemExit as e:
        log.append("exit%s" % e.code)
    finally:
        (config.init, cli._update_cfg_from_vcs, cli.incr_dispatch, cli._is_valid_version, cli._print_diff, cli._try_update) = saved
    return log
