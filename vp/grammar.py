"""Bounded pattern grammar (DESIGN §2.8): patterns are enumerated, values are solved."""
from vp import refmodel as rm

# patterns that occur in README.md, CHANGELOG.md, doctests and test/*.py (v2 syntax)
G_DOC = [
    "MAJOR.MINOR.PATCH", "vMAJOR.MINOR.PATCH", "MAJOR.MINOR.PATCH[PYTAGNUM]", "MAJOR.MINOR[.PATCH[PYTAGNUM]]",
    "vMAJOR.MINOR[.PATCH[-TAG]]", "vMAJOR[.MINOR[.PATCH[-TAG]]]", "vMAJOR[.MINOR[.PATCH[-TAGNUM]]]", "vMAJOR.MINOR.PATCH-TAGNUM",
    "MAJOR.MINOR.PATCH[-TAG[NUM]]", "MAJOR.MINOR.PATCH[-TAG]", "MAJOR.MINOR.PATCH-TAG",
    "YYYY.BUILD[PYTAGNUM]", "YYYY.BUILD[-TAG]", "vYYYY.BUILD[-TAG]", "YYYY.BUILD", "vYYYY0M.BUILD[-TAG]", "YYYY0M.BUILD[-TAG]",
    "vYYYY0M.BUILD[-TAG[NUM]]", "vYYYY0M.BUILD[-TAG][NUM]", "YYYY0M.BLD[PYTAGNUM]", "vYY.BLD[-PYTAGNUM]", "v0Y.BLD[-TAG]",
    "YYYY.INC0[PYTAGNUM]", "vYYYY.INC0[-PATCH]", "vYYYY.INC1[-PATCH]",
    "YYYY0M.PATCH[-TAG]", "YYYY.0M", "YYYY.MM", "YYYY.WW", "vYYYY.WW", "vYYYY.WW[-TAG]", "vYYYY.WW[-TAGNUM]",
    "YYYY.MM.PATCH", "YYYY.MM[.PATCH]", "YYYY.MM.PATCH[PYTAGNUM]", "YYYY.0M.PATCH[PYTAGNUM]", "YYYY.MM.INC0", "YYYY.MM[.INC0]",
    "YYYY.MM.INC1", "YYYY.MM.MINOR", "YYYY.MM[.MINOR]", "vYYYY.0M.MINOR",
    "YYYY.MM.DD", "YYYY.0M.0D", "YY.0M.PATCH", "vYYYYw0W.BUILD[-TAG]", "vYYYYwWW.BLD[-TAG]", "vYYYYd00J.BUILD[-TAG]",
    "vYYYYdJJJ.BUILD[-TAG]", "vGGGGwVV.BLD[PYTAGNUM]", "vGGGGw0V.BUILD[-TAG]", "GGGG.0V", "YYYY.0U", "YYYY.0W", "YYYY.Q.PATCH",
    "0Y0W.PATCH", "YYUU.PATCH", "GGVV.PATCH", "0G0V.PATCH",
]


FIXED_WIDTH = set(rm.PAD) | {"YYYY", "GGGG", "Q"}


def tokens(raw):
    """longest-match tokenisation of a v2 pattern into part names and literal characters"""
    names = sorted(rm.PARTS, key=len, reverse=True)
    out, i = [], 0
    while i < len(raw):
        for n in names:
            if raw.startswith(n, i):
                out.append(n)
                i += len(n)
                break
        else:
            out.append(raw[i])
            i += 1
    return out


def glued_ambiguous(raw):
    """a part of variable width (MAJOR, YY, UU, BUILD ...) directly followed - no literal in between - by another numeric part:
    the rendering '110' of YYUU is (1, 10) and (11, 0) alike, no reader can tell. Such a pattern is not a usable version pattern
    (the README offers the zero-padded parts for exactly this), and is outside every round-trip claim"""
    toks = [t for t in tokens(raw) if t not in "[]"]
    for a, b in zip(toks, toks[1:]):
        if a in rm.PARTS and b in rm.PARTS and a not in FIXED_WIDTH and a not in ("TAG", "PYTAG") and b not in ("TAG", "PYTAG"):
            return True
    return False


def info(raw):
    ast = rm.parse_pattern(raw)
    parts = rm.parts_in_order(ast)
    fields = [rm.PARTS[p] for p in parts]
    fs = set(fields)
    full_date = ('year_y' in fs and 'doy' in fs) or ('year_y' in fs and 'month' in fs and 'dom' in fs)
    has_cal = bool(fs & set(rm.CAL_FIELDS))
    flavour = 'fulldate' if full_date else ('partial' if has_cal else 'nocal')
    return {"raw": raw, "ast": ast, "parts": parts, "fields": fields, "flavour": flavour}


# natural domains of calendar fields (C02-L1 shows cal_info stays inside them and attains every value)
CAL_DOMAIN = {
    'year_y': (1000, 9999), 'year_g': (1000, 9999), 'quarter': (1, 4), 'month': (1, 12), 'dom': (1, 31), 'doy': (1, 366),
    'week_w': (0, 53), 'week_u': (0, 53), 'week_v': (1, 53),
}
TWO_DIGIT_YEAR = {'YY', '0Y', 'GG', '0G'}


def field_domain(part, hi):
    """(lo, hi) of the state field behind `part`, for bound `hi` on free numeric parts"""
    f = rm.PARTS[part]
    if part in TWO_DIGIT_YEAR:
        return (2001, 2099)
    if f in CAL_DOMAIN:
        return CAL_DOMAIN[f]
    if part == 'INC1':
        return (1, hi)
    return (0, hi)


def digit_classes(lo, hi):
    """split [lo, hi] into maximal sub-ranges of equal decimal length"""
    out, k = [], 1
    while True:
        a, b = (0 if k == 1 else 10 ** (k - 1)), 10 ** k - 1
        a, b = max(a, lo), min(b, hi)
        if a <= b:
            out.append((a, b))
        if 10 ** k - 1 >= hi:
            return out
        k += 1
