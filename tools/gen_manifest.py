#!/usr/bin/env python3
"""Regenerates MANIFEST.json from vp/props/*.py (INFO dicts) — run after adding a property."""
import importlib, json, os, sys, pathlib
HERE = pathlib.Path(__file__).resolve().parent.parent
sys.path.insert(0, str(HERE))
os.environ.setdefault("VP_MANIFEST", "1")
NA_REASONS = {
    "C08": "quantifies over histories of a real git repository (branch switches, unrelated commits, git tag --merged) with the config "
           "re-read through toml/configparser between steps; neither git nor the TOML decoder can be executed symbolically, and with both "
           "stubbed only the one-step obligations already discharged under C01/C02/C03/C09/C10/C12 remain (DESIGN §5)",
}
PENDING = "check not built yet in this round (planned, see DESIGN §4); not claimed until its obligations run"
checks, na = [], []
ids = [f"C{i:02d}" for i in range(1, 21)]
for pid in ids:
    f = HERE / "vp" / "props" / f"{pid.lower()}.py"
    if pid in NA_REASONS:
        na.append({"property_id": pid, "reason": NA_REASONS[pid]}); continue
    if not f.exists():
        na.append({"property_id": pid, "reason": PENDING}); continue
    try:
        from vp import runner  # noqa
        mod = importlib.import_module(f"vp.props.{pid.lower()}")
    except Exception as ex:
        print("cannot import", pid, ex); na.append({"property_id": pid, "reason": PENDING}); continue
    info = mod.INFO
    checks.append({
        "property_id": pid,
        "quick_cmd": f"./check {pid} --tier quick",
        "thorough_cmd": f"./check {pid} --tier thorough",
        "evidence_file": f"evidence/{pid}.json",
        "replay_cmd_template": "./check --replay {path}",
        "engine": info.get("engine", "crosshair+z3"),
        "technique": info.get("technique", "bounded symbolic execution of the real Python functions (CrossHair) with z3 deciding each path; "
                                           "counterexamples replayed on plain CPython"),
        "level_claimed": {
            "category": "model_checking",
            "text": info.get("level_text", "bounded symbolic model checking of the real functions: every obligation is a solver verdict "
                                           "(CrossHair 'Confirmed over all paths' / z3 unsat) over all values within the bounds printed in the evidence; "
                                           "not a proof - nothing is claimed outside the bounds") + " Bounds: " + info.get("bounds", ""),
            "design_ref": info.get("design_ref", ""),
        },
        "level_note": "Functions: " + ", ".join(info.get("functions", [])) + ". Stubs: " + "; ".join(info.get("stubs", []) or ["none"])
                      + ". Outside the claim: " + info.get("outside", "") + ". Lemma composition argued in DESIGN " + info.get("design_ref", "") + ".",
    })
manifest = {
    "version": 1,
    "setup_cmd": "./setup.sh",
    "hooks": {
        "guard": "BUMPVER_VERIF",
        "enable": "none needed: harnesses rebind module attributes (vcs.sp, v2version.dt, rewrite.pl, ...) at run time and restore them; /repo carries no instrumentation",
        "baseline_off_cmd": "cd /repo && /venv/bin/python -m pytest -ra -q -p no:cacheprovider --timeout=900 --continue-on-collection-errors",
        "source_commits": [],
        "add_only": True,
    },
    "engines": [
        {"name": "crosshair+z3", "path": "vp/runner.py", "serves_properties": [c["property_id"] for c in checks],
         "kind_free_text": "CrossHair 0.0.110 symbolic execution of /repo/src/bumpver (current working tree) with z3 5.1.0; local model patches in vp/chpatch.py"},
    ],
    "checks": checks,
    "not_applicable": na,
    "notes": "Known findings and fixed defects: known_findings.jsonl. Seeded changes: seeded/. Sensitivity mutants: mutants/ (tools/mutant.sh).",
}
(HERE / "MANIFEST.json").write_text(json.dumps(manifest, indent=1) + "\n")
print("checks:", [c["property_id"] for c in checks], "n/a:", [n["property_id"] for n in na])
