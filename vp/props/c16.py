"""C16 obligations (DESIGN §4.16)."""
import itertools
from vp.runner import Ob

INFO = {
    "design_ref": "§4.16",
    "functions": ["setuptools_v65_version._cmpkey", "_parse_letter_version", "Version.__init__", "Version.__str__", "parse",
                  "LegacyVersion", "_legacy_cmpkey", "version.parse_version", "version.to_pep440"],
    "bounds": "L1: pairs of structured versions: epoch 0..2, release of 1..3 numbers 0..99, pre phase x number 0..99, post/dev absent or "
              "0..99 (one obligation per pair of (phase, release length) classes); L2: 16 spellings x number 0..9999/absent; "
              "L3: one obligation per text shape (prefix, release length, separator, spelling, separator, number present), numbers 0..99 "
              "(quick: the shapes bumpver can render; thorough: 13 spellings x 4x4 separators x 3 prefixes x leading zero); "
              "L4: bumpver-style legacy strings with one free separator character",
    "outside": "local version segments; releases longer than 3; numbers > 99 in L1/L3; arbitrary text (the PEP 440 regex on unconstrained "
               "symbolic text does not finish: probe P7); total-preorder laws follow from agreement with a lexicographic integer order",
    "stubs": [],
    "assumptions": ["vp/pep440ref.py is PEP 440's order (25 lines, integer tuples)"],
}

QUICK_SPELLINGS = [("", "", False), ("-", "alpha", False), ("-", "beta", False), ("-", "rc", False), ("-", "dev", False),
                   ("-", "post", False), ("-", "alpha", True), ("-", "beta", True), ("-", "rc", True), ("-", "dev", True),
                   ("-", "post", True), ("", "a", True), ("", "b", True), ("", "rc", True), ("", "dev", True), ("", "post", True),
                   (".", "dev", True), (".", "post", True), ("-", "preview", False)]
ALL_SPELLINGS = ["a", "b", "c", "rc", "alpha", "beta", "pre", "preview", "post", "rev", "r", "dev", "Alpha", "RC"]


def obligations(tier):
    obs = []
    t = 300 if tier == "quick" else 1200
    hi = 99
    phases = [None, "a", "b", "rc"]
    lens = [(2, 2), (2, 3), (3, 2)] if tier == "quick" else list(itertools.product((1, 2, 3), repeat=2))
    for p1, p2 in itertools.product(phases, repeat=2):
        for n1, n2 in lens:
            if tier == "quick" and (n1, n2) != (2, 3) and (p1, p2) not in ((None, None), (None, "rc"), ("a", "b")):
                continue
            obs.append(Ob(f"L1.cmpkey_agrees[pre {p1}/{p2}, release lengths {n1}/{n2}]", "c16.py", "cmpkey_agrees",
                          {"pre1": p1, "pre2": p2, "n1": n1, "n2": n2, "hi": hi}, timeout=t))
    for i in range(8):
        obs.append(Ob(f"L1b.text_order[pair {i}]", "c16.py", "text_order", {"pair": i}, timeout=t))
    obs.append(Ob("L2.letter_version", "c16.py", "letter_version", {}, timeout=t))
    shapes = []
    if tier == "quick":
        for sep1, sp, num in QUICK_SPELLINGS:
            shapes.append({"prefix": "v", "n": 2, "sep1": sep1, "spelling": sp, "sep2": "", "num": num})
        shapes.append({"prefix": "", "n": 3, "sep1": "", "spelling": "b", "sep2": "", "num": True})
        shapes.append({"prefix": "v", "n": 2, "sep1": "", "spelling": "", "sep2": "", "num": False, "implicit_post": True})
        shapes.append({"prefix": "", "n": 2, "sep1": "", "spelling": "", "sep2": "", "num": False, "lead0": True})
        shapes.append({"prefix": "v", "n": 2, "sep1": "", "spelling": "rc", "sep2": "", "num": True, "epoch": True})
    else:
        shapes.append({"prefix": "", "n": 3, "sep1": "-", "spelling": "beta", "sep2": "", "num": True, "epoch": True})
        shapes.append({"prefix": "v", "n": 2, "sep1": "", "spelling": "", "sep2": "", "num": False, "epoch": True})
        k = 0
        for sp, sep1, sep2, num in itertools.product(ALL_SPELLINGS, ("", "-", "_", "."), ("", "-", "_", "."), (True, False)):
            if not num and sep2:
                continue
            k += 1   # prefix and release length alternate over the shapes instead of multiplying them
            shapes.append({"prefix": ("", "v")[k % 2], "n": (2, 3)[(k // 2) % 2], "sep1": sep1, "spelling": sp, "sep2": sep2, "num": num})
        shapes.append({"prefix": "V", "n": 2, "sep1": "", "spelling": "", "sep2": "", "num": False})
        shapes.append({"prefix": "v", "n": 2, "sep1": "", "spelling": "", "sep2": "", "num": False, "implicit_post": True})
        shapes.append({"prefix": "", "n": 3, "sep1": "", "spelling": "", "sep2": "", "num": False, "lead0": True})
    for sh in shapes:
        label = f"{sh['prefix']}{'.'.join('abc'[:sh['n']])}{sh['sep1']}{sh['spelling']}{sh['sep2']}{'N' if sh['num'] else ''}" \
                + ("-N" if sh.get("implicit_post") else "") + (" lead0" if sh.get("lead0") else "") + (" epoch E!" if sh.get("epoch") else "")
        obs.append(Ob(f"L3.version_text[{label}]", "c16.py", "version_text", {"shape": sh, "hi": hi}, timeout=t))
    for ch in ("q", "w", "_", "/", "x", "~") if tier != "quick" else ("q", "_", "~"):
        obs.append(Ob(f"L4.legacy_not_pep440[vYYYY{ch}Q.BUILD]", "c16.py", "legacy_not_pep440", {"ch": ch}, timeout=t))
    obs.append(Ob("L4.legacy_below[table]", "c16.py", "legacy_below", {}, timeout=t))
    obs.append(Ob("twin.keys_differ", "c16.py", "twin_all_equal", {}, expect="refute", timeout=60))
    return obs
