import chfix, logging; logging.disable(logging.CRITICAL)
import typing as typ
from bumpver import setuptools_v65_version as sv

SPELL = ["a", "b", "c", "rc", "alpha", "beta", "pre", "preview", "ALPHA", "Rc"]
NORM = {"a": "a", "b": "b", "c": "rc", "rc": "rc", "alpha": "a", "beta": "b", "pre": "rc", "preview": "rc"}
SEP = ["", "-", "_", "."]

def pre_spell(a: int, b: int, n: int, sp_i: int, s1: int, s2: int, v: bool, lead0: bool) -> bool:
    """
    pre: 0 <= a <= 99 and 0 <= b <= 99 and 0 <= n <= 99 and 0 <= sp_i < len(SPELL) and 0 <= s1 <= 3 and 0 <= s2 <= 3
    post: _
    """
    s = ("v" if v else "") + str(a) + "." + ("0" if lead0 else "") + str(b) + SEP[s1] + SPELL[sp_i] + SEP[s2] + str(n)
    ver = sv.parse(s)
    if not isinstance(ver, sv.Version):
        return False
    ok = ver.release == (a, b) and ver.pre == (NORM[SPELL[sp_i].lower()], n) and ver.post is None and ver.dev is None and ver.epoch == 0
    canon = sv.Version(str(ver))
    return ok and canon._key == ver._key
