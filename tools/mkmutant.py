#!/usr/bin/env python3
"""tools/mkmutant.py NAME FILE OLD NEW [COUNT]  -> mutants/NAME.patch (one textual replacement in src/bumpver/FILE, made in a scratch worktree)"""
import subprocess, sys, tempfile, pathlib, shutil
name, file, old, new = sys.argv[1:5]
count = int(sys.argv[5]) if len(sys.argv) > 5 else 1
here = pathlib.Path(__file__).resolve().parent.parent
w = tempfile.mkdtemp(prefix="vpmk."); shutil.rmtree(w)
subprocess.run(["git", "-C", "/repo", "worktree", "add", "-q", "--detach", w, "HEAD"], check=True)
try:
    p = pathlib.Path(w) / "src" / "bumpver" / file
    s = p.read_text()
    old = old.encode().decode("unicode_escape"); new = new.encode().decode("unicode_escape")
    if s.count(old) < 1:
        sys.exit(f"OLD text not found in {file}")
    if s.count(old) != count:
        sys.exit(f"OLD text occurs {s.count(old)} times, expected {count}")
    p.write_text(s.replace(old, new))
    d = subprocess.run(["git", "-C", w, "diff"], capture_output=True, text=True).stdout
    (here / "mutants" / f"{name}.patch").write_text(d)
    print(d)
finally:
    subprocess.run(["git", "-C", "/repo", "worktree", "remove", "--force", w])
