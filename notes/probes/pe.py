import chfix, logging; logging.disable(logging.CRITICAL)
import typing as typ
from bumpver import setuptools_v65_version as sv

PRE = ["a", "b", "rc"]
Seg = typ.Optional[int]

def key(epoch, r0, r1, pre_l, pre_n, post, dev):
    pre = None if pre_l < 0 else (PRE[pre_l], pre_n)
    return sv._cmpkey(epoch, (r0, r1), pre, None if post is None else ("post", post), None if dev is None else ("dev", dev), None)

def spec_lt(a, b) -> bool:
    """Independent PEP 440 order on structured versions (epoch, release-with-zero-strip, phase...)."""
    def norm(t):
        epoch, r0, r1, pre_l, pre_n, post, dev = t
        rel = (r0,) if r1 == 0 else (r0, r1)
        if r0 == 0 and r1 == 0: rel = ()
        # pre-phase rank: dev-only < a < b < rc < final
        if pre_l >= 0: ph = (pre_l + 1, pre_n)
        elif post is None and dev is not None: ph = (0, 0)
        else: ph = (4, 0)
        po = (0, 0) if post is None else (1, post)
        de = (1, 0) if dev is None else (0, dev)
        return (epoch, rel, ph, po, de)
    return norm(a) < norm(b)

def agree(e1: int, a0: int, a1: int, pl1: int, pn1: int, po1: Seg, d1: Seg, e2: int, b0: int, b1: int, pl2: int, pn2: int, po2: Seg, d2: Seg) -> bool:
    """
    pre: 0 <= e1 <= 2 and 0 <= e2 <= 2 and 0 <= a0 <= 99 and 0 <= a1 <= 99 and 0 <= b0 <= 99 and 0 <= b1 <= 99
    pre: -1 <= pl1 <= 2 and -1 <= pl2 <= 2 and 0 <= pn1 <= 9 and 0 <= pn2 <= 9
    pre: (po1 is None or 0 <= po1 <= 9) and (po2 is None or 0 <= po2 <= 9) and (d1 is None or 0 <= d1 <= 9) and (d2 is None or 0 <= d2 <= 9)
    post: _
    """
    k1 = key(e1, a0, a1, pl1, pn1, po1, d1)
    k2 = key(e2, b0, b1, pl2, pn2, po2, d2)
    return (k1 < k2) == spec_lt((e1, a0, a1, pl1, pn1, po1, d1), (e2, b0, b1, pl2, pn2, po2, d2))
