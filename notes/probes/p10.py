import chfix, logging; logging.disable(logging.CRITICAL)
import symcal2 as symcal
from bumpver import v2version, version
v2version.int = symcal.smart_int

def weekw(y: int, j: int) -> int:
    """
    pre: 2001 <= y <= 2099 and 1 <= j <= symcal.days_in_year(y)
    post: 0 <= _ <= 52
    """
    return v2version.cal_info(symcal.SymDate(y, doy=j)).week_w

def weekw_ok(y: int, j: int) -> int:
    """
    pre: 1000 <= y <= 9999 and 1 <= j <= symcal.days_in_year(y)
    post: 0 <= _ <= 53
    """
    return v2version.cal_info(symcal.SymDate(y, doy=j)).week_w
