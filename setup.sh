#!/bin/bash
# Builds the CrossHair overlay venv (offline). Idempotent; also called by ./check.
set -e
cd "$(dirname "$0")"
VENV="$(pwd)/.venv"
exec 9>"/tmp/.verif-setup.lock"
flock 9
if [ -x "$VENV/bin/crosshair" ] && "$VENV/bin/python" -c "import crosshair, z3, bumpver" 2>/dev/null; then
  exit 0
fi
rm -rf "$VENV"
/venv/bin/python -m venv "$VENV"
SP=$("$VENV/bin/python" -c "import sysconfig; print(sysconfig.get_paths()['purelib'])")
printf '%s\n%s\n' /venv/lib/python3.12/site-packages /repo/src > "$SP/_overlay.pth"
PIP_NO_INDEX=1 "$VENV/bin/pip" install -q --no-index --find-links /opt/veriftools/wheels crosshair-tool z3-solver >/dev/null
"$VENV/bin/python" -c "import crosshair, z3, bumpver; print('venv ok', crosshair.__version__)"
