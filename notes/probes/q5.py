import chfix, logging; logging.disable(logging.CRITICAL)
import typing as typ
import subprocess as sp
from bumpver import cli, vcs, config, hooks, v2rewrite

cli._configure_logging = lambda verbose=0: None
BASECFG = config.Config("1.2.3", "MAJOR.MINOR.PATCH", "1.2.3", "bump {old_version} -> {new_version}", "{new_version}", config.TagScope.DEFAULT, "", "", False, False, False, True, {"f.txt": []})
TB = typ.Optional[bool]

class RecAPI:
    name = "git"
    def __init__(self, log, dirty, fail_at):
        self.log, self.dirty, self.fail_at = log, dirty, fail_at
    def _do(self, what):
        self.log.append(what)
        if self.fail_at == len(self.log):
            raise sp.CalledProcessError(1, what)
    def status(self, required_files): self._do("status"); return ["x.txt"] if self.dirty else []
    def add(self, path): self._do("add")
    def commit(self, message): self._do("commit")
    def tag(self, tag_name, tag_message): self._do("tag")
    def push_tag(self, tag_name): self._do("push_tag")
    def push(self): self._do("push")

ORDER = ["tags", "diff", "status", "rewrite", "hook:pre", "add", "commit", "hook:post", "tag", "push", "push_tag"]

def upd(c_commit: bool, c_tag: bool, c_push: bool, f_commit: TB, f_tag: TB, f_push: TB, pre: bool, post: bool,
        dry: bool, allow_dirty: bool, dirty: bool, ignore_tag: bool, fetch: bool, fail_at: int) -> typ.List[str]:
    """
    pre: (c_commit or not c_tag) and (c_commit or not c_push) and 0 <= fail_at <= 12
    post: (not dry) or all(x in ("tags", "tags+fetch", "diff", "exit1") for x in _)
    post: ("rewrite" not in _) or ("status" not in _) or _.index("status") < _.index("rewrite")
    post: ("commit" not in _) or (_.index("rewrite") < _.index("commit"))
    post: all(x not in _ for x in ("tag", "push", "push_tag")) or ("commit" in _)
    post: fetch or ("tags+fetch" not in _)
    """
    log: typ.List[str] = []
    cfg = BASECFG._replace(commit=c_commit, tag=c_tag, push=c_push, pre_commit_hook="pre" if pre else "", post_commit_hook="post" if post else "")
    saved = (config.init, vcs.get_tags, cli._print_diff, vcs.get_vcs_api, v2rewrite.rewrite_files, hooks.run)
    config.init = lambda project_path=".", cfg_missing_ok=False: (None, cfg)
    vcs.get_tags = lambda fetch, scope: (log.append("tags+fetch" if fetch else "tags"), [])[1]
    cli._print_diff = lambda cfg, new_version: log.append("diff")
    vcs.get_vcs_api = lambda: RecAPI(log, dirty, fail_at)
    v2rewrite.rewrite_files = lambda fp, vinfo: log.append("rewrite")
    hooks.run = lambda path, old, new: log.append("hook:" + path)
    try:
        cli.update.callback(dry=dry, allow_dirty=allow_dirty, ignore_vcs_tag=ignore_tag, fetch=fetch, patch=True,
                            commit=f_commit, tag_commit=f_tag, push=f_push)
    except SystemExit as e:
        log.append("exit%s" % e.code)
    finally:
        (config.init, vcs.get_tags, cli._print_diff, vcs.get_vcs_api, v2rewrite.rewrite_files, hooks.run) = saved
    return log
