"""C11 obligations (DESIGN §4.11)."""
import subprocess
import tempfile
import os
from vp.runner import Ob, finding_open

INFO = {
    "design_ref": "§4.11",
    "functions": ["vcs.VCSAPI.__call__", "vcs.VCSAPI.status", "vcs.assert_not_dirty", "cli._update"],
    "bounds": "1..2 (quick) / 1..3 (thorough) porcelain lines 'XY path', X,Y over git's porcelain-v1 alphabet ' MADRCU?', "
              "path in {pattern file, unrelated file}, --allow-dirty symbolic; ordering lemma over commit x vcs-found x dirty x engine",
    "outside": "rename lines 'R  old -> new', paths with blanks/quotes (git quotes them), hg status text, more lines than the bound "
               "(the code is a per-line filter: list comprehension without cross-line state)",
    "stubs": ["subprocess.check_output -> symbolic porcelain text (format validated against real git on every run)"],
    "assumptions": ["git status --porcelain prints 'XY<blank>path' per entry (validated per run with real git in a temp repo)"],
}

KEY_BLANK_X = "C11:porcelain line whose X column is blank (' M', ' D', ...) with --allow-dirty"


def _git(cwd, *args):
    return subprocess.run(["git", *args], cwd=cwd, capture_output=True, text=True, check=True,
                          env=dict(os.environ, GIT_CONFIG_GLOBAL="/dev/null", GIT_AUTHOR_NAME="a", GIT_AUTHOR_EMAIL="a@b",
                                   GIT_COMMITTER_NAME="a", GIT_COMMITTER_EMAIL="a@b", HOME=cwd)).stdout


def validate_porcelain():
    """Stub validation: real git prints exactly the 'XY path' lines the harness feeds to the code."""
    errs, n = [], 0
    with tempfile.TemporaryDirectory(prefix="vp_c11_") as d:
        _git(d, "init", "-q")
        for name in ("m_unstaged", "m_staged", "m_both", "deleted", "deleted_staged", "renamed"):
            open(os.path.join(d, name), "w").write("one\n")
        _git(d, "add", ".")
        _git(d, "commit", "-qm", "init")
        open(os.path.join(d, "m_unstaged"), "a").write("two\n")
        open(os.path.join(d, "m_staged"), "a").write("two\n"); _git(d, "add", "m_staged")
        open(os.path.join(d, "m_both"), "a").write("two\n"); _git(d, "add", "m_both"); open(os.path.join(d, "m_both"), "a").write("3\n")
        os.unlink(os.path.join(d, "deleted"))
        _git(d, "rm", "-q", "deleted_staged")
        open(os.path.join(d, "added"), "w").write("x\n"); _git(d, "add", "added")
        open(os.path.join(d, "untracked"), "w").write("x\n")
        out = _git(d, "status", "--porcelain")
        got = dict((ln[3:], ln[:2]) for ln in out.splitlines())
        want = {"m_unstaged": " M", "m_staged": "M ", "m_both": "MM", "deleted": " D", "deleted_staged": "D ",
                "added": "A ", "untracked": "??"}
        for k, v in want.items():
            n += 1
            if got.get(k) != v:
                errs.append(f"{k}: real git printed {got.get(k)!r}, stub assumes {v!r}")
        for ln in out.splitlines():
            n += 1
            if len(ln) < 4 or ln[2] != " " or any(c not in " MADRCU?" for c in ln[:2]):
                errs.append(f"line outside the modelled format: {ln!r}")
    return n, errs


def validations(tier):
    return [("porcelain format vs real git", validate_porcelain)]


def obligations(tier):
    import itertools
    t = 180 if tier == "quick" else 900
    obs = []
    mod = "c11.py"
    is_open = finding_open(KEY_BLANK_X)
    ns = (1, 2) if tier == "quick" else (1, 2, 3)
    for n in ns:
        for ks in itertools.product((0, 1), repeat=n):
            k = list(ks) + [0] * (3 - n)
            base = {"n": n, "k": k}
            label = f"n={n},files={''.join('PO'[i] for i in ks)}"
            if is_open:
                obs.append(Ob(f"L1.dirty_gate[{label},X non-blank]", mod, "dirty_gate", dict(base, exclude_blank_x=True), timeout=t,
                              bounds=f"{n} line(s), X in 'MADRCU?'"))
            else:
                obs.append(Ob(f"L1.dirty_gate[{label}]", mod, "dirty_gate", base, timeout=t, bounds=f"{n} line(s), X,Y in ' MADRCU?'"))
    if is_open:
        obs.append(Ob("L1.dirty_gate[known: X column blank]", mod, "dirty_gate", {"n": 1, "k": [0, 0, 0], "only_blank_x": True},
                      expect="known", finding=KEY_BLANK_X, timeout=t))
    obs.append(Ob("L1.dirty_gate_hg", mod, "dirty_gate_hg", {}, timeout=t, bounds="1..2 lines '<letter> <path>', letters MAR!?"))
    obs.append(Ob("L1.clean_tree", mod, "clean_tree_passes", {}, timeout=60))
    obs.append(Ob("twin.some_exit", mod, "twin_some_exit", {}, expect="refute", timeout=60))
    obs.append(Ob("twin.some_pass", mod, "twin_some_pass", {}, expect="refute", timeout=60))
    obs.append(Ob("L2.update_order", mod, "update_order", {}, timeout=120))
    # nothing but the configured files is staged, whatever hooks are configured (the commit-step lemma of C10)
    obs.append(Ob("L4.only_configured_files_staged", "c10.py", "commit_sequence", {}, timeout=t))
    # the set compared with git's status paths is keyed by canonical relative paths, however the config spells them
    obs.append(Ob("L3.configured_paths_canonical", "c03.py", "merge_file_patterns", {}, timeout=t))
    return obs
