"""C09 — the current version is the greatest matching tag in scope.

Real code: cli._update_cfg_from_vcs, cli.get_latest_vcs_version_tag, cli._parse_version_tags, v2version.is_valid / v1version.is_valid,
version.parse_version, version.to_pep440 (scope -> listing command: harness/c10.py get_tags_fetch; uniqueness: harness/c01.py gate_unique).
Symbolic: the numbers inside the tags and the config version, tag order, scope, fetch.
Stub: vcs.get_tags -> symbolic tag list.
"""
import vp.chpatch  # noqa
import json
import os

from bumpver import cli, config, vcs, version, v2version, v1version
from vp import symcal

P = json.loads(os.environ.get("VP_PARAMS", "{}"))
ORDER = P.get("order", 0)
SCOPES = [config.TagScope.DEFAULT, config.TagScope.GLOBAL, config.TagScope.BRANCH]
LEGACY = P.get("legacy", False)
PAT = "{semver}" if LEGACY else "MAJOR.MINOR[.PATCH]"
NO_IMPOSSIBLE = P.get("exclude_impossible_dates", False)   # known-finding class S7
ONLY_IMPOSSIBLE = P.get("only_impossible_dates", False)


def _cfg(cur, scope):
    return config.Config(
        current_version=cur, version_pattern=PAT, pep440_version="CFG-PEP440", commit_message="m", tag_message="t",
        tag_scope=scope, pre_commit_hook="", post_commit_hook="", commit=True, tag=True, push=False, is_new_pattern=not LEGACY,
        file_patterns={},
    )


def _render(a, b, c):
    s = str(a) + "." + str(b)
    if LEGACY:
        return s + "." + str(c)
    if c != 0:
        s += "." + str(c)
    return s


FIX = P.get("fix", {})
B0, B1, B2 = P.get("b0", [0, 9]), P.get("b1", [0, 9]), P.get("b2", [0, 9])


def fx(name, value) -> bool:
    return FIX.get(name, value) == value


def select_tag(a0: int, b0: int, c0: int, a1: int, b1: int, c1: int, a2: int, b2: int, explicit_zero: bool,
               scope: int, fetch: bool, junk: bool) -> bool:
    """
    pre: 0 <= a0 <= 9 and B0[0] <= b0 <= B0[1] and 0 <= c0 <= 9 and 0 <= a1 <= 9 and B1[0] <= b1 <= B1[1] and 0 <= c1 <= 9
    pre: 0 <= a2 <= 9 and B2[0] <= b2 <= B2[1] and 0 <= scope <= 2
    pre: fx("c0", c0) and fx("c1", c1)
    pre: fx("scope", scope) and fx("junk", junk) and fx("explicit_zero", explicit_zero) and fx("fetch", fetch)
    post: _
    """
    cur = _render(a0, b0, c0)
    t1 = _render(a1, b1, c1)
    t2 = str(a2) + "." + str(b2) + (".0" if (explicit_zero or LEGACY) else "")     # PEP 440-equal spelling of a2.b2
    tags = [[t1, t2], [t2, t1]][ORDER]
    if junk:
        tags = ["release-candidate", "v" + t1] + tags + ["2021.02.30x", ""]
    calls = []

    def get_tags(fetch, scope):
        calls.append((fetch, scope))
        return list(tags)

    cfg = _cfg(cur, SCOPES[scope])
    saved = vcs.get_tags
    vcs.get_tags = get_tags
    try:
        got = cli._update_cfg_from_vcs(cfg, fetch)
    finally:
        vcs.get_tags = saved
    if calls != [(fetch, SCOPES[scope])]:
        return False
    k0, k1, k2 = (a0, b0, c0), (a1, b1, c1), (a2, b2, 0)
    best_key = k1 if k1 >= k2 else k2
    if SCOPES[scope] == config.TagScope.DEFAULT and best_key <= k0:
        return got is cfg
    # the start version is a tag with the greatest key (either one when two spellings denote the same version)
    if got.current_version is t1:
        ok = k1 == best_key
    elif got.current_version is t2:
        ok = k2 == best_key
    else:
        return False
    if not ok:
        return False
    rest = got._replace(current_version=cfg.current_version, pep440_version=cfg.pep440_version)
    if rest != cfg:
        return False
    bk = best_key
    want_pep = str(bk[0]) + "." + str(bk[1]) + ("." + str(bk[2]) if (got.current_version is t1 and (c1 != 0 or LEGACY)) else
                                                 (".0" if (got.current_version is t2 and (explicit_zero or LEGACY)) else ""))
    return got.pep440_version == want_pep


def no_matching_tag(a0: int, b0: int, scope: int, n: int) -> bool:
    """tags that do not match the pattern never influence the result
    pre: 0 <= a0 <= 99 and 0 <= b0 <= 99 and 0 <= scope <= 2 and 0 <= n <= 4
    post: _
    """
    cur = _render(a0, b0, 0)
    tags = ["release-1", "v9.9", "9.9.9.9", "9", ""][:n]
    cfg = _cfg(cur, SCOPES[scope])
    saved = vcs.get_tags
    vcs.get_tags = lambda fetch, scope: list(tags)
    try:
        got = cli._update_cfg_from_vcs(cfg, True)
    finally:
        vcs.get_tags = saved
    return got is cfg


def impossible(y, m, d) -> bool:
    return d > symcal.days_in_month(y, m)


def date_class_ok(y, m, d) -> bool:
    imp = impossible(y, m, d)
    if NO_IMPOSSIBLE and imp:
        return False
    if ONLY_IMPOSSIBLE and not imp:
        return False
    return True


def is_valid_total(y: int, m: int, d: int, suffix: int) -> bool:
    """the tag filter answers True/False for every tag text, calendar-impossible dates and junk included; it never raises
    pre: 2019 <= y <= 2024 and 1 <= m <= 12 and 1 <= d <= 31 and 0 <= suffix <= 2 and date_class_ok(y, m, d)
    post: _
    """
    text = "v" + str(y) + "." + ("0" if m < 10 else "") + str(m) + "." + ("0" if d < 10 else "") + str(d) + ["", "x", ".1"][suffix]
    with symcal.Bound():
        got = v2version.is_valid(text, "vYYYY.0M.0D")
    return got == (suffix == 0 and not impossible(y, m, d))


def _alternatives(part):
    from bumpver import v2patterns
    return v2patterns.PART_PATTERNS[part].pattern.strip("()?:").split("|") if hasattr(v2patterns.PART_PATTERNS[part], "pattern") \
        else str(v2patterns.PART_PATTERNS[part]).replace("(?:", "").replace(")", "").split("|")


TAG_SPELLINGS = sorted(set(_alternatives("TAG"))) + ["gamma", "Final"]
PYTAG_SPELLINGS = sorted(set(_alternatives("PYTAG"))) + ["c", "x"]


def is_valid_total_tag(a: int, b: int, c: int, k: int, n: int, py: bool) -> bool:
    """every spelling the TAG / PYTAG part of the real pattern table accepts (read from v2patterns.PART_PATTERNS on every run:
    preview, final, dev, alpha, beta, post, rc / dev, post, rc, a, b) is a matching tag, every other spelling is refused,
    and the filter never raises
    pre: 0 <= a <= 99 and 0 <= b <= 99 and 0 <= c <= 99 and 0 <= k <= 8 and 0 <= n <= 9
    post: _
    """
    if py:
        if k >= len(PYTAG_SPELLINGS):
            return True
        sp = PYTAG_SPELLINGS[k]
        text = str(a) + "." + str(b) + "." + str(c) + sp + str(n)
        got = v2version.is_valid(text, "MAJOR.MINOR.PATCH[PYTAGNUM]")
        return got == (k < len(PYTAG_SPELLINGS) - 2)
    if k >= len(TAG_SPELLINGS):
        return True
    sp = TAG_SPELLINGS[k]
    text = str(a) + "." + str(b) + "." + str(c) + "-" + sp
    got = v2version.is_valid(text, "MAJOR.MINOR.PATCH[-TAG]")
    return got == (k < len(TAG_SPELLINGS) - 2)


def is_valid_total_doy(y: int, j: int) -> bool:
    """day 366 of a common year is not a date of that year: the reader may accept or refuse it, but must not raise
    pre: 2019 <= y <= 2024 and 1 <= j <= 366
    post: _
    """
    text = str(y) + "." + str(j)
    with symcal.Bound():
        got = v2version.is_valid(text, "YYYY.JJJ")
    return got is True or got is False


def is_valid_total_v1(y: int, m: int, b: int, k: int) -> bool:
    """legacy engine: total as well
    pre: 2000 <= y <= 2099 and 0 <= m <= 19 and 0 <= b <= 99999 and 0 <= k <= 2
    post: _
    """
    text = "v" + str(y) + ("0" if m < 10 else "") + str(m) + "." + str(b) + ["", "-beta", "-x"][k]
    got = v1version.is_valid(text, "{pycalver}")
    return got is True or got is False


def junk_tag_symbolic(t: str, a0: int, b0: int, scope: int) -> bool:
    """a tag of arbitrary short text that does not match the pattern (no text of <= 2 characters matches MAJOR.MINOR[.PATCH])
    never influences or breaks the result
    pre: len(t) <= 2 and 0 <= a0 <= 9 and 0 <= b0 <= 9 and 0 <= scope <= 2
    post: _
    """
    cfg = _cfg(_render(a0, b0, 0), SCOPES[scope])
    saved = vcs.get_tags
    vcs.get_tags = lambda fetch, scope: [t, "1", t + t]
    try:
        got = cli._update_cfg_from_vcs(cfg, False)
    finally:
        vcs.get_tags = saved
    return got is cfg   # neither t, "1" nor t + t (a doubled 2-character text has no 'digits.digits' shape) matches the pattern
