"""C06 — a failed update leaves the project untouched.

Real code: cli._try_update, cli._update, v2rewrite/v1rewrite.rewrite_files, iter_rewritten, rfd_from_content,
rewrite_lines, parse.iter_matches, rewrite.iter_path_patterns_items, vcs.assert_not_dirty, vcs.commit, diff().
Symbolic: per file "exists", per (file, pattern) "matches", the file order, commit on/off.
Stubs: in-memory file system (vp.memfs), match/no-match regex (vp.fakere.ByTextRe), recording VCS API.
"""
import vp.chpatch  # noqa
import json
import os

from bumpver import cli, config, vcs, rewrite, v2rewrite, v1rewrite, v2version, v1version, parse
from bumpver.patterns import Pattern
from vp.memfs import MemFS, NS
from vp.fakere import ByTextRe

P = json.loads(os.environ.get("VP_PARAMS", "{}"))
LEGACY = P.get("legacy", False)
NFILES = P.get("nfiles", 3)
NPAT = P.get("npat", 2)
OLO, OHI = P.get("order_lo", 0), P.get("order_hi", 7)

NAMES = ["a.txt", "b.txt", "c.txt", "d.txt"]
ORDERS = [[0, 1, 2, 3], [1, 0, 2, 3], [2, 1, 0, 3], [0, 2, 1, 3], [1, 2, 0, 3], [2, 0, 1, 3], [3, 2, 1, 0], [3, 0, 1, 2]]

if LEGACY:
    VP, OLD, NEW = "{semver}", "1.2.3", "1.2.4"
    RAW = ["{version}", "semver={semver}"]
    NEEDLES = ["1.2.3", "semver=1.2.3"]
    NEW_TEXT = ["1.2.4", "semver=1.2.4"]
else:
    VP, OLD, NEW = "MAJOR.MINOR.PATCH", "1.2.3", "1.2.4"
    RAW = ["{version}", "pep={pep440_version}"]
    NEEDLES = ["1.2.3", "pep=1.2.3"]
    NEW_TEXT = ["1.2.4", "pep=1.2.4"]

PARTIAL = P.get("partial", False)
if PARTIAL:
    # the second pattern is a partial one that renders the same for OLD and NEW (MAJOR.MINOR under a patch bump); the second file
    # carries only this pattern and holds a stale value: the real run rewrites it, so the dry run has to show it
    RAW = [RAW[0], "rel={MAJOR}.{MINOR}" if LEGACY else "rel=MAJOR.MINOR"]
    NEEDLES = [NEEDLES[0], "pep=1.2.3"]
    NEW_TEXT = [NEW_TEXT[0], "rel=1.2"]


def _pats(idx):
    return [1] if (PARTIAL and idx == 1) else list(range(NPAT))


# each file: one line per pattern, occurrences on distinct lines
CONTENT = "version 1.2.3 here\nsee pep=1.2.3 or semver=1.2.3\nlast line"
# pattern 0's needle "1.2.3" also occurs on line 1; iter_matches handles one match per line per pattern (search), so
# use distinct lines: pattern 0 matches line 0 first ... line 1 also contains 1.2.3 -> both lines change for pattern 0.
CONTENT = "version 1.2.3 here\nsee pep=1:2:3 or semver=1:2:3\nlast line"
NEEDLES = [NEEDLES[0], NEEDLES[1].replace(".", ":")]


from bumpver import v1patterns, v2patterns
_COMPILE = v1patterns.compile_pattern if LEGACY else v2patterns.compile_pattern


class RecAPI:
    name = "git"

    def __init__(self, log, dirty):
        self.log, self.dirty = log, dirty

    def status(self, required_files):
        self.log.append("status")
        return list(self.dirty)

    def add(self, path):
        self.log.append(("add", path))

    def commit(self, message):
        self.log.append(("commit", message))

    def tag(self, tag_name, tag_message):
        self.log.append(("tag", tag_name))

    def push(self):
        self.log.append("push")

    def push_tag(self, tag_name):
        self.log.append(("push_tag", tag_name))


def _mk(exists, matches, order, commit):
    from vp.hygiene import reset_mutable_defaults
    reset_mutable_defaults(v1rewrite, v2rewrite, rewrite, parse)
    files = {}
    file_patterns = {}
    for idx in ORDERS[order]:
        if idx >= NFILES:
            continue
        name = NAMES[idx]
        if exists[idx]:
            # line endings differ per file: LF, CRLF, CR, LF (the dry and the real path must agree on every regime)
            files[name] = CONTENT.replace("\n", ["\n", "\r\n", "\r", "\n"][idx])
        file_patterns[name] = [
            _COMPILE(VP, RAW[p])._replace(regexp=ByTextRe(NEEDLES[p], matches[idx][p])) for p in _pats(idx)
        ]
    fs = MemFS(files)
    cfg = config.Config(
        current_version=OLD, version_pattern=VP, pep440_version=OLD, commit_message="bump", tag_message="t",
        tag_scope=config.TagScope.DEFAULT, pre_commit_hook="", post_commit_hook="", commit=commit, tag=commit, push=False,
        is_new_pattern=not LEGACY, file_patterns=file_patterns,
    )
    return fs, cfg


class _Seams:
    def __init__(self, fs, log):
        self.fs, self.log = fs, log

    def __enter__(self):
        self.saved = (rewrite.pl, v2rewrite.io, v1rewrite.io, vcs.get_vcs_api)
        rewrite.pl = NS(Path=self.fs.Path)
        v2rewrite.io = v1rewrite.io = NS(open=self.fs.open)
        log = self.log
        vcs.get_vcs_api = lambda: RecAPI(log, [])
        return self

    def __exit__(self, *a):
        rewrite.pl, v2rewrite.io, v1rewrite.io, vcs.get_vcs_api = self.saved
        return False


def _expected_after(before, matches):
    exp = {}
    for idx in range(NFILES):
        name = NAMES[idx]
        text = before[name]
        for p in _pats(idx):
            text = text.replace(NEEDLES[p], NEW_TEXT[p])
        exp[name] = text
    return exp


def failed_update_atomic(e0: bool, e1: bool, e2: bool, m00: bool, m01: bool, m10: bool, m11: bool, m20: bool, m21: bool,
                         order: int, commit: bool) -> bool:
    """
    pre: OLO <= order <= OHI
    post: _
    """
    exists = [e0, e1, e2, True]
    matches = [[m00, m01], [m10, m11], [m20, m21], [True, True]]
    fs, cfg = _mk(exists, matches, order, commit)
    before = fs.snapshot()
    log = []
    failed = False
    with _Seams(fs, log):
        try:
            cli._try_update(cfg, NEW, "bump", "t", False)
        except SystemExit as ex:
            failed = True
            if ex.code == 0:
                return False
        except (OSError, rewrite.NoPatternMatch):
            failed = True
    fault = False
    for idx in range(NFILES):
        if not exists[idx]:
            fault = True
        for p in _pats(idx):
            if not matches[idx][p]:
                fault = True
    mutating = [x for x in log if x != "status"]
    if fault:
        # must fail, and leave every byte and the VCS alone
        return failed and fs.files == before and mutating == [] and fs.writes == []
    if failed:
        return False
    if fs.files != _expected_after(before, matches):
        return False
    if len(fs.writes) != NFILES:
        return False
    if commit:
        adds = sorted(x[1] for x in mutating if x[0] == "add")
        return adds == sorted(NAMES[:NFILES]) and ("commit", "bump") in mutating and ("tag", NEW) in mutating
    return mutating == []


def dry_agrees_with_real(e0: bool, e1: bool, e2: bool, m00: bool, m01: bool, m10: bool, m11: bool, m20: bool, m21: bool,
                         order: int) -> bool:
    """a dry run never hides a failure: rewrite_files raises => diff() raises; diff() returns => rewrite_files returns
    pre: OLO <= order <= OHI
    post: _
    """
    exists = [e0, e1, e2, True]
    matches = [[m00, m01], [m10, m11], [m20, m21], [True, True]]
    fs, cfg = _mk(exists, matches, order, False)
    before = fs.snapshot()
    if LEGACY:
        old_vinfo = v1version.parse_version_info(OLD, VP)
        new_vinfo = v1version.parse_version_info(NEW, VP)
        mod = v1rewrite
    else:
        old_vinfo = v2version.parse_version_info(OLD, VP)
        new_vinfo = v2version.parse_version_info(NEW, VP)
        mod = v2rewrite
    dry_failed = real_failed = False
    with _Seams(fs, []):
        try:
            mod.diff(old_vinfo, new_vinfo, cfg.file_patterns)
        except (OSError, rewrite.NoPatternMatch):
            dry_failed = True
        if fs.files != before or fs.writes:
            return False  # the dry path wrote something
        for pats in cfg.file_patterns.values():
            for pat in pats:
                pass
        try:
            mod.rewrite_files(cfg.file_patterns, new_vinfo)
        except (OSError, rewrite.NoPatternMatch):
            real_failed = True
    return dry_failed == real_failed


def twin_never_fails(e0: bool, m00: bool, m01: bool) -> bool:
    """reachability twin: 'update never exits non-zero' must be refuted
    post: _
    """
    fs, cfg = _mk([e0, True, True, True], [[m00, m01], [True, True], [True, True], [True, True]], 0, False)
    with _Seams(fs, []):
        try:
            cli._try_update(cfg, NEW, "bump", "t", False)
        except (SystemExit, OSError):
            return False
    return True


def twin_never_succeeds(e0: bool, m00: bool, m01: bool) -> bool:
    """reachability twin: 'update never completes' must be refuted
    post: _
    """
    fs, cfg = _mk([e0, True, True, True], [[m00, m01], [True, True], [True, True], [True, True]], 0, False)
    with _Seams(fs, []):
        try:
            cli._try_update(cfg, NEW, "bump", "t", False)
        except (SystemExit, OSError):
            return True
    return False


# ---------------------------------------------------------------------------------------------------------------------
# C13 (b), (c): what diff() shows is what rewrite_files writes

def dry_shows_what_is_written(m00: bool, m01: bool, m10: bool, m11: bool, order: int) -> bool:
    """file by file, the RewrittenFileData handed to rewrite.diff_lines by diff() has the path of the file, the old lines as
    they are on disk and exactly the new lines that rewrite_files joins and writes; diff() writes nothing
    pre: OLO <= order <= OHI
    post: _
    """
    exists = [True, True, True, True]
    matches = [[m00, m01], [m10, m11], [True, True], [True, True]]
    fs, cfg = _mk(exists, matches, order, False)
    before = fs.snapshot()
    if LEGACY:
        old_vinfo, new_vinfo, mod = v1version.parse_version_info(OLD, VP), v1version.parse_version_info(NEW, VP), v1rewrite
    else:
        old_vinfo, new_vinfo, mod = v2version.parse_version_info(OLD, VP), v2version.parse_version_info(NEW, VP), v2rewrite
    shown = []
    real_diff_lines = rewrite.diff_lines

    def diff_lines(rfd):
        shown.append(rfd)
        return real_diff_lines(rfd)

    saved = rewrite.diff_lines
    rewrite.diff_lines = diff_lines
    dry_failed = real_failed = False
    text = ""
    with _Seams(fs, []):
        try:
            try:
                text = mod.diff(old_vinfo, new_vinfo, cfg.file_patterns)
            except (OSError, rewrite.NoPatternMatch):
                dry_failed = True
        finally:
            rewrite.diff_lines = saved
        if fs.files != before or fs.writes:
            return False
        try:
            mod.rewrite_files(cfg.file_patterns, new_vinfo)
        except (OSError, rewrite.NoPatternMatch):
            real_failed = True
    if dry_failed != real_failed:
        return False
    if dry_failed:
        return fs.files == before
    if len(shown) != NFILES:
        return False
    for rfd in shown:
        if rfd.path not in before:
            return False
        if rfd.line_sep.join(rfd.old_lines) != before[rfd.path]:
            return False
        if rfd.line_sep.join(rfd.new_lines) != fs.files[rfd.path]:
            return False
        # the printed text names the file and carries every changed line
        if ("--- " + rfd.path) not in text or ("+++ " + rfd.path) not in text:
            return False
        for old_line, new_line in zip(rfd.old_lines, rfd.new_lines):
            if old_line != new_line and (("-" + old_line) not in text or ("+" + new_line) not in text):
                return False
    return True


def print_diff_verbatim(d: str) -> bool:
    """what --dry prints (not a terminal) is exactly the diff text computed by diff(): no re-splitting, no recoding
    pre: len(d) <= PLEN
    post: _
    """
    import click
    import sys
    out = []
    saved_echo, saved_stdout = click.echo, sys.stdout

    class _NoTty:
        def isatty(self):
            return False

        def write(self, s):
            return len(s)

        def flush(self):
            pass

    click.echo = lambda message=None, *a, **k: out.append(message)
    sys.stdout = _NoTty()
    try:
        cli._print_diff_str(d)
    finally:
        click.echo, sys.stdout = saved_echo, saved_stdout
    return len(out) == 1 and out[0] == d


PLEN = P.get("plen", 3)
