"""C20 — legacy {...} patterns render, read back and increase consistently.

Real code: v1patterns.compile_pattern, v1version.format_version / parse_version_info / incr / cal_info, cli.incr_dispatch,
cli._is_valid_version, config._parse_config (engine selection), version.parse_version.
Symbolic: year, month, build id, tag, SemVer numbers, today's date.
"""
import vp.chpatch  # noqa
import json
import os
import typing as typ

from bumpver import v1version, v1patterns, v2version, version, cli, config
from vp import symcal

P = json.loads(os.environ.get("VP_PARAMS", "{}"))
PAT = P.get("pattern", "{pycalver}")
BID_ZEROS = P.get("bid_zeros", 0)
BLO, BHI = P.get("bid", [1000, 9998])
TAGS = ["final", "alpha", "beta", "rc", "dev", "post"]
NO_SUFFIX_GATE = P.get("exclude_trailing_text", False)
FIELDS = set(f for part, f in v1patterns.PATTERN_PART_FIELDS.items() if ("{" + part + "}") in
             "".join([PAT] + [v for k, v in v1patterns.FULL_PART_FORMATS.items() if ("{" + k + "}") in PAT]))
if "{pycalver}" in PAT or "{pep440_pycalver}" in PAT:
    FIELDS |= {"year", "month", "bid", "tag"}
if "{semver}" in PAT:
    FIELDS |= {"major", "minor", "patch"}
if "{release}" in PAT:
    FIELDS |= {"tag"}
if "{build}" in PAT:
    FIELDS |= {"bid"}


FIX = P.get("fix", {})


def fx(name, value) -> bool:
    return FIX.get(name, value) == value


def vinfo(y, m, bidv, tag_i, major, minor, patch):
    # as the reader delivers it: the quarter is derived from the month
    return version.V1VersionInfo(year=y if "year" in FIELDS else None, quarter=((m - 1) // 3 + 1) if "month" in FIELDS else None,
                                 month=m if "month" in FIELDS else None,
                                 dom=None, doy=None, iso_week=None, us_week=None, major=major, minor=minor, patch=patch,
                                 bid=("0" * BID_ZEROS + str(bidv)) if "bid" in FIELDS else "0001", tag=TAGS[tag_i])


def roundtrip(y: int, m: int, bidv: int, tag_i: int, major: int, minor: int, patch: int) -> bool:
    """render -> the compiled pattern accepts the whole text -> the same parts are read back
    pre: 2000 <= y <= 2099 and 1 <= m <= 12 and BLO <= bidv <= BHI and 0 <= tag_i <= 5
    pre: 0 <= major <= 99 and 0 <= minor <= 99 and 0 <= patch <= 99
    post: _
    """
    vi = vinfo(y, m, bidv, tag_i, major, minor, patch)
    text = v1version.format_version(vi, PAT)
    pattern = v1patterns.compile_pattern(PAT)
    match = pattern.regexp.match(text)
    if match is None or len(match.group()) != len(text):
        return False
    if "pep440" in PAT:
        return True   # derived search pattern: acceptance in full is all that is used of it
    got = v1version.parse_version_info(text, PAT)
    for f in FIELDS:
        if getattr(got, f) != getattr(vi, f):
            return False
    return True


class Rendered:
    """stands for v1version.format_version(vinfo, PAT); equal iff the states agree on the pattern's fields (roundtrip lemma)"""
    __vp_no_realize__ = True
    __hash__ = None

    def __init__(self, vinfo):
        self.vinfo = vinfo

    def __eq__(self, other):
        if not isinstance(other, Rendered):
            return False
        for f in FIELDS:
            if getattr(self.vinfo, f) != getattr(other.vinfo, f):
                return False
        return True

    def __ne__(self, other):
        return not self.__eq__(other)

    def __format__(self, spec):
        return "<rendered>"

    def __str__(self):
        return "<rendered>"


def incr_greater(y: int, m: int, bidv: int, tag_i: int, major: int, minor: int, patch: int, ty: int, tj: int,
                 f_major: bool, f_minor: bool, f_patch: bool, newtag_i: int, pin_date: bool) -> bool:
    """real v1version.incr (through cli.incr_dispatch) with the string seams cut: the announced state is strictly greater than the
    old one — (year, month) never decrease and the build id grows (as an integer and as a string), or the SemVer triple grows
    pre: 2000 <= y <= 2099 and 1 <= m <= 12 and BLO <= bidv <= BHI and 0 <= tag_i <= 5
    pre: 0 <= major <= 99 and 0 <= minor <= 99 and 0 <= patch <= 99 and 2000 <= ty <= 2099 and 1 <= tj <= 12 and 0 <= newtag_i <= 6
    pre: fx("newtag_i", newtag_i) and fx("tag_i", tag_i) and fx("f_major", f_major) and fx("f_minor", f_minor) and fx("f_patch", f_patch)
    post: _
    """
    vi = vinfo(y, m, bidv, tag_i, major, minor, patch)
    # today's calendar: independent symbolic year and month (tj), the other fields are not read by these patterns
    today = version.V1CalendarInfo(year=ty, quarter=(tj - 1) // 3 + 1, month=tj, dom=15, doy=100, iso_week=20, us_week=20)
    saved = (v1version.parse_version_info, v1version.format_version, v1version.cal_info)
    v1version.parse_version_info = lambda version_str, raw_pattern="x": vi
    v1version.format_version = lambda vinfo, raw_pattern: Rendered(vinfo)
    v1version.cal_info = lambda date=None: today
    try:
        new = cli.incr_dispatch(Rendered(vi), raw_pattern=PAT, major=f_major, minor=f_minor, patch=f_patch,
                                tag=([None] + TAGS)[newtag_i], tag_num=False, pin_increments=False, pin_date=pin_date,
                                maybe_date=None)
    finally:
        v1version.parse_version_info, v1version.format_version, v1version.cal_info = saved
    if new is None:
        return True
    nv = new.vinfo
    if "bid" in FIELDS:
        if "year" in FIELDS and not ((nv.year, nv.month if "month" in FIELDS else 0) >= (y, m if "month" in FIELDS else 0)):
            return False
        return int(nv.bid) > int(vi.bid) and len(nv.bid) >= len(vi.bid) and nv.bid > vi.bid
    return (nv.major, nv.minor, nv.patch) > (major, minor, patch)


def incr_doy(y: int, j: int, ty: int, tj: int, bidv: int, pin_date: bool) -> bool:
    """legacy day-of-year versions (v{year}d{doy}.{bid}{release}): the announced (year, day) is never earlier than the old one
    (an old version later than today keeps its date), and the build id grows
    pre: 2000 <= y <= 2099 and 1 <= j <= 366 and 2000 <= ty <= 2099 and 1 <= tj <= 366 and 1000 <= bidv <= 9998
    pre: fx("pin_date", pin_date) and fx("bidv", bidv)
    post: _
    """
    if j > symcal.days_in_year(y) or tj > symcal.days_in_year(ty):
        return True
    ft = symcal.fields(ty, tj)
    # the old state is what the real reader makes of the groups 'year', 'doy', 'bid' (calendar stub bound; FieldStr -> int for free)
    with symcal.Bound():
        vi = v1version._parse_field_values({"year": symcal.FieldStr(y), "doy": symcal.FieldStr(j), "bid": str(bidv)})
    today = version.V1CalendarInfo(year=ty, quarter=ft["quarter"], month=ft["month"], dom=ft["dom"], doy=tj,
                                   iso_week=ft["week_w"], us_week=ft["week_u"])
    saved = (v1version.parse_version_info, v1version.format_version, v1version.cal_info)
    v1version.parse_version_info = lambda version_str, raw_pattern="x": vi
    v1version.format_version = lambda vinfo, raw_pattern: Rendered(vinfo)
    v1version.cal_info = lambda date=None: today
    try:
        new = cli.incr_dispatch(Rendered(vi), raw_pattern=PAT, pin_date=pin_date)
    finally:
        v1version.parse_version_info, v1version.format_version, v1version.cal_info = saved
    if new is None:
        return False      # the build id always changes, so a version is announced
    nv = new.vinfo
    if not ((nv.year, nv.doy) >= (y, j)):
        return False
    want = (y, j) if (pin_date or (y, j) > (ty, tj)) else (ty, tj)
    return (nv.year, nv.doy) == want and int(nv.bid) > bidv


def legacy_gate(a1: int, b1: int, c1: int, a2: int, b2: int, c2: int) -> bool:
    """the gate on legacy renderings: accepted iff strictly greater ({semver})
    pre: 0 <= a1 <= HI1 and 0 <= b1 <= 9 and 0 <= c1 <= 9 and 0 <= a2 <= HI1 and 0 <= b2 <= 9 and 0 <= c2 <= 9
    post: _
    """
    old = v1version.format_version(vinfo(2020, 1, 1000, 0, a1, b1, c1), "{semver}")
    new = v1version.format_version(vinfo(2020, 1, 1000, 0, a2, b2, c2), "{semver}")
    return cli._is_valid_version("{semver}", old, new) == ((a2, b2, c2) > (a1, b1, c1))


HI1 = P.get("hi1", 9)


def roundtrip_calendar_part(y: int, v: int, bidv: int, tag_i: int) -> bool:
    """legacy day-of-year / week / day-of-month parts (text half): every value a date can produce is accepted by the compiled
    pattern in full and carried by its group — KIND selects the part
    pre: 2000 <= y <= 2099 and CLO <= v <= CHI and BLO <= bidv <= BHI and 0 <= tag_i <= 5
    post: _
    """
    if CFIELD == "doy" and v > symcal.days_in_year(y):
        return True
    kw = {CFIELD: v}
    vi = version.V1VersionInfo(year=y, quarter=None, month=1, dom=None, doy=None, iso_week=None, us_week=None, major=0, minor=0,
                               patch=0, bid=str(bidv), tag=TAGS[tag_i])._replace(**kw)
    text = v1version.format_version(vi, PAT)
    match = v1patterns.compile_pattern(PAT).regexp.match(text)
    if match is None or len(match.group()) != len(text):
        return False
    gd = match.groupdict()
    return int(gd[CPART]) == v and int(gd["year"]) == y


CFIELD, CPART = P.get("cfield", "doy"), P.get("cpart", "doy")
CLO, CHI = P.get("crange", [1, 366])


LEGACY_PATTERNS = ["{pycalver}", "{semver}", "v{year}{month}{build}{release}", "{year}{build}{release}", "{MAJOR}.{MINOR}.{PATCH}",
                   "v{year}.{month_short}.{PATCH}", "v{year}w{iso_week}.{BID}{release}", "{yy}.{quarter}", "{pep440_pycalver}"]
NEW_PATTERNS = ["MAJOR.MINOR.PATCH", "vYYYY0M.BUILD[-TAG]", "YYYY.MM[.INC0]"]


def dispatch_consistent(i: int) -> bool:
    """one engine per pattern: test, update (gate) and the config loader agree (finite list: enumeration by index)
    pre: 0 <= i < len(LEGACY_PATTERNS) + len(NEW_PATTERNS)
    post: _
    """
    pats = LEGACY_PATTERNS + NEW_PATTERNS
    pat = pats[i]
    want_legacy = i < len(LEGACY_PATTERNS)
    used = []
    saved = (v1version.incr, v2version.incr, v1version.parse_version_info, v2version.parse_version_info)
    v1version.incr = lambda *a, **k: used.append("v1.incr")
    v2version.incr = lambda *a, **k: used.append("v2.incr")

    def p1(*a, **k):
        used.append("v1.parse")
        raise version.PatternError("x")

    def p2(*a, **k):
        used.append("v2.parse")
        raise version.PatternError("x")

    v1version.parse_version_info, v2version.parse_version_info = p1, p2
    try:
        cli.incr_dispatch("1.2.3", raw_pattern=pat)
        cli._is_valid_version(pat, "1.2.3", "1.2.4")
        try:
            config._parse_config({"current_version": "1.2.3", "version_pattern": pat, "file_patterns": {}, "commit": False,
                                  "tag": None, "push": None})
        except ValueError:
            pass
    finally:
        v1version.incr, v2version.incr, v1version.parse_version_info, v2version.parse_version_info = saved
    eng = "v1" if want_legacy else "v2"
    return used == [eng + ".incr", eng + ".parse", eng + ".parse"]


def tag_num_refused(a: int, b: int, c: int) -> bool:
    """--tag-num on a legacy pattern never announces a version
    pre: 0 <= a <= 9 and 0 <= b <= 9 and 0 <= c <= 9
    post: _
    """
    old = str(a) + "." + str(b) + "." + str(c)
    try:
        got = cli.incr_dispatch(old, raw_pattern="{semver}", patch=True, tag_num=True)
    except NotImplementedError:
        return True
    return got is None


SUFFIXES = [".5", "x", "-rc1", " "]


def legacy_gate_full_match(a: int, b: int, c: int, k: int) -> bool:
    """a --set-version target with trailing text does not match the pattern in full and is refused
    pre: 0 <= a <= 99 and 0 <= b <= 99 and 0 <= c <= 99 and 0 <= k < len(SUFFIXES)
    post: _
    """
    old = str(a) + "." + str(b) + "." + str(c)
    new = str(a + 1) + "." + str(b) + "." + str(c) + SUFFIXES[k]
    return cli._is_valid_version("{semver}", old, new) is False
