"""C11 — uncommitted changes are never swept into the bump commit.

Real code: vcs.VCSAPI.__call__/status, vcs.assert_not_dirty, cli._update (ordering lemma).
Symbolic: porcelain status codes X, Y per line, which file the line names, --allow-dirty.
Stub: subprocess output (sp.check_output) = the symbolic porcelain text.
"""
import vp.chpatch  # noqa
import json
import os
import typing as typ

from bumpver import vcs, cli, config, rewrite

P = json.loads(os.environ.get("VP_PARAMS", "{}"))
EXCLUDE_BLANK_X = P.get("exclude_blank_x", False)  # known finding S8 class: X column blank
ONLY_BLANK_X = P.get("only_blank_x", False)

PATTERN_FILE = "setup.py"
OTHER_FILE = "notes.txt"
ALPHABET = " MADRCU?"  # git status --porcelain v1 (without --ignored)


def valid_xy(x: str, y: str) -> bool:
    if len(x) != 1 or len(y) != 1:
        return False
    if x not in ALPHABET or y not in ALPHABET:
        return False
    if x == " " and y == " ":
        return False
    if (x == "?") != (y == "?"):
        return False
    return True


def in_class(x1: str, x2: str, x3: str) -> bool:
    blank = x1 == " " or (N >= 2 and x2 == " ") or (N >= 3 and x3 == " ")
    if EXCLUDE_BLANK_X and blank:
        return False
    if ONLY_BLANK_X and not blank:
        return False
    return True


class _Bytes:
    def __init__(self, text):
        self.text = text

    def decode(self, enc="utf-8"):
        return self.text


class _SP:
    """Stub of the subprocess module as seen by bumpver.vcs"""

    PIPE = -1
    CalledProcessError = vcs.sp.CalledProcessError

    def __init__(self, text):
        self.text = text
        self.calls = []

    def check_output(self, cmd_parts, env=None, stderr=None):
        self.calls.append(list(cmd_parts))
        return _Bytes(self.text)


def _path(k: int) -> str:
    return PATTERN_FILE if k == 0 else OTHER_FILE


def _exits(text: str, allow_dirty: bool) -> bool:
    stub = _SP(text)
    real_sp = vcs.sp
    vcs.sp = stub
    try:
        try:
            vcs.assert_not_dirty(vcs.VCSAPI("git"), {PATTERN_FILE}, allow_dirty)
        except SystemExit as ex:
            return ex.code != 0
        return False
    finally:
        vcs.sp = real_sp


def _expected(lines: typ.List[typ.Tuple[str, str, int]], allow_dirty: bool) -> bool:
    tracked_change = False
    pattern_dirty = False
    for x, y, k in lines:
        untracked = x == "?" and y == "?"
        if not untracked:
            tracked_change = True
        if k == 0:
            pattern_dirty = True
    return (tracked_change and not allow_dirty) or pattern_dirty


N = P.get("n", 2)
K = P.get("k", [0, 1, 0])


def dirty_gate(x1: str, y1: str, x2: str, y2: str, x3: str, y3: str, allow_dirty: bool) -> bool:
    """
    pre: valid_xy(x1, y1) and valid_xy(x2, y2) and valid_xy(x3, y3)
    pre: in_class(x1, x2, x3)
    post: _
    """
    lines = [(x1, y1, K[0]), (x2, y2, K[1]), (x3, y3, K[2])][:N]
    text = "".join(x + y + " " + _path(k) + "\n" for x, y, k in lines)
    return _exits(text, allow_dirty) == _expected(lines, allow_dirty)


HG_ALPHABET = "MAR!?"


def dirty_gate_hg(x1: str, k1: int, x2: str, k2: int, n: int, allow_dirty: bool) -> bool:
    """mercurial command set: `hg status -umard` prints '<letter> <path>'. A listed pattern file always blocks; a tracked change
    blocks unless --allow-dirty; an empty status passes (what an untracked unrelated file does under hg is not claimed)
    pre: len(x1) == 1 and x1 in HG_ALPHABET and len(x2) == 1 and x2 in HG_ALPHABET and 0 <= k1 <= 1 and 0 <= k2 <= 1 and 1 <= n <= 2
    post: _
    """
    lines = [(x1, k1)] + ([(x2, k2)] if n == 2 else [])
    text = "".join(x + " " + _path(k) + "\n" for x, k in lines)
    stub = _SP(text)
    real_sp = vcs.sp
    vcs.sp = stub
    exited = False
    try:
        try:
            vcs.assert_not_dirty(vcs.VCSAPI("hg"), {PATTERN_FILE}, allow_dirty)
        except SystemExit as ex:
            exited = ex.code != 0
    finally:
        vcs.sp = real_sp
    pattern_dirty = any(k == 0 for _x, k in lines)
    tracked_change = any(x != "?" for x, _k in lines)
    if pattern_dirty or (tracked_change and not allow_dirty):
        return exited
    if allow_dirty:
        return not exited
    return True


def clean_tree_passes(allow_dirty: bool) -> bool:
    """
    post: _
    """
    return not _exits("", allow_dirty)


def twin_some_exit(x1: str, y1: str, k1: int, allow_dirty: bool) -> bool:
    """reachability twin: 'the gate never exits' must be refuted
    pre: valid_xy(x1, y1) and 0 <= k1 <= 1
    post: _
    """
    return not _exits(x1 + y1 + " " + _path(k1) + "\n", allow_dirty)


def twin_some_pass(x1: str, y1: str, k1: int, allow_dirty: bool) -> bool:
    """reachability twin: 'the gate always exits' must be refuted
    pre: valid_xy(x1, y1) and 0 <= k1 <= 1
    post: _
    """
    return _exits(x1 + y1 + " " + _path(k1) + "\n", allow_dirty)


# ---- ordering lemma: cli._update checks the tree before any rewrite, and only when committing

class _Api:
    name = "git"


def update_order(commit: bool, vcs_found: bool, dirty_exit: bool, new_pattern: bool) -> bool:
    """
    post: _
    """
    log = []

    def get_vcs_api():
        log.append("get_vcs_api")
        if not vcs_found:
            raise OSError("no vcs")
        return _Api()

    def assert_not_dirty(api, filepaths, allow_dirty):
        log.append("dirty_check")
        if dirty_exit:
            raise SystemExit(1)

    def rewrite_files(file_patterns, vinfo):
        log.append("rewrite")

    def vcs_commit(*a, **k):
        log.append("commit")

    def parse_vinfo(v, p):
        return ("vinfo", v)

    cfg = config.Config(
        current_version="1.2.3", version_pattern="MAJOR.MINOR.PATCH", pep440_version="1.2.3",
        commit_message="m", commit=commit, tag=False, tag_message="", tag_scope=config.TagScope.DEFAULT,
        pre_commit_hook="", post_commit_hook="", push=False, is_new_pattern=new_pattern,
        file_patterns={PATTERN_FILE: []},
    )
    saved = (vcs.get_vcs_api, vcs.assert_not_dirty, vcs.commit, cli.v2rewrite.rewrite_files,
             cli.v1rewrite.rewrite_files, cli.v2version.parse_version_info, cli.v1version.parse_version_info)
    vcs.get_vcs_api, vcs.assert_not_dirty, vcs.commit = get_vcs_api, assert_not_dirty, vcs_commit
    cli.v2rewrite.rewrite_files = cli.v1rewrite.rewrite_files = rewrite_files
    cli.v2version.parse_version_info = cli.v1version.parse_version_info = parse_vinfo
    exited = False
    try:
        try:
            cli._update(cfg, "1.2.4", "msg", "", False)
        except SystemExit:
            exited = True
    finally:
        (vcs.get_vcs_api, vcs.assert_not_dirty, vcs.commit, cli.v2rewrite.rewrite_files,
         cli.v1rewrite.rewrite_files, cli.v2version.parse_version_info, cli.v1version.parse_version_info) = saved
    if commit and vcs_found:
        if dirty_exit:
            return exited and log == ["get_vcs_api", "dirty_check"]
        return (not exited) and log == ["get_vcs_api", "dirty_check", "rewrite", "commit"]
    if commit:
        return (not exited) and log == ["get_vcs_api", "rewrite"]
    return (not exited) and log == ["rewrite"]
