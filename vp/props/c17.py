"""C17 obligations (DESIGN §4.17)."""
from vp.runner import Ob

INFO = {
    "design_ref": "§4.17",
    "functions": ["v2version._incr_numeric", "lexid.next_id (site-packages, as shipped)", "v2version.format_version / parse_version_info (BUILD part)"],
    "bounds": "one step from every id '0'*z + str(v): z leading zeros, m significant digits, z+m <= 5 (quick) / <= 7 (thorough), "
              "v over the whole m-digit decade except all-9s; second step for ids shorter than 4 digits; closure assertion "
              "(successor has >= 4 digits, width grows by <= 1 beyond max(width, 4)) makes the one-step lemma inductive",
    "outside": "ids of 8+ digits; the all-9s overflow (OverflowError is the documented maximum); rendering/reading of BUILD/BLD (C02-L2)",
    "stubs": [],
    "assumptions": ["induction over classes is argued: every successor lies in a class covered by the same lemma up to the tier's width bound"],
}


def obligations(tier):
    maxw = 5 if tier == "quick" else 7
    t = 120 if tier == "quick" else 900
    obs = []
    for m in range(1, maxw + 1):
        for z in range(0, maxw - m + 1):
            obs.append(Ob(f"L1.build_step[z={z},m={m}]", "c17.py", "build_step", {"z": z, "m": m}, timeout=t,
                          bounds=f"id = '{'0' * z}' + {m}-digit value"))
    for m in range(1, maxw + 1):
        for z in range(0, maxw - m + 1):
            if m >= 5 and tier == "quick":
                continue
            obs.append(Ob(f"L3.build_rendering[z={z},m={m}]", "c17.py", "build_rendering", {"z": z, "m": m}, timeout=t))
    # the same step under a pattern with a resettable part right of BUILD (NUM is reset on every bump because BUILD changed)
    for z, m in ((0, 4), (1, 4), (1, 3), (2, 3)):
        obs.append(Ob(f"L1.build_step[z={z},m={m}; vYYYY.BUILD[-TAG[NUM]]]", "c17.py", "build_step",
                      {"z": z, "m": m, "bump_pattern": "vYYYY.BUILD[-TAG[NUM]]"}, timeout=t))
    for m in range(1, 4):
        for z in range(0, 4 - m):
            obs.append(Ob(f"L2.second_step[z={z},m={m}]", "c17.py", "build_second_step", {"z": z, "m": m}, timeout=t))
    obs.append(Ob("twin.some_id_expands", "c17.py", "twin_step_always_same_width", {}, expect="refute", timeout=60))
    return obs
