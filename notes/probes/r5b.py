import chfix, logging; logging.disable(logging.CRITICAL)
import typing as typ
import refmodel as rm
from bumpver import v2version, version

BASE = v2version.parse_field_values_to_vinfo({'major': "0"})
NONE_CAL = dict(year_y=None, year_g=None, quarter=None, month=None, dom=None, doy=None, week_w=None, week_u=None, week_v=None)
PAT = "YYYY.MM[.INC0]"
AST = rm.parse_pattern(PAT)

def ym_inc0(y: int, m: int, inc: int, y2: int, m2: int, pin_inc: bool, pin_date: bool) -> bool:
    """
    pre: 2000 <= y <= 2099 and 1 <= m <= 12 and 0 <= inc <= 99 and 2000 <= y2 <= 2099 and 1 <= m2 <= 12
    post: _
    """
    q2 = (m2 - 1) // 3 + 1
    cal_today = dict(year_y=y2, year_g=y2, quarter=q2, month=m2, dom=15, doy=100, week_w=20, week_u=20, week_v=20)
    st = BASE._asdict(); st.update(NONE_CAL); st.update(dict(year_y=y, month=m, quarter=(m - 1) // 3 + 1, inc0=inc))
    old = v2version.format_version(version.V2VersionInfo(**st), PAT)
    today = version.V2CalendarInfo(**cal_today)
    orig = v2version.cal_info
    v2version.cal_info = lambda date=None: today
    try:
        real = v2version.incr(old, PAT, pin_increments=pin_inc, pin_date=pin_date)
    finally:
        v2version.cal_info = orig
    new = rm.bump(AST, st, cal_today, pin_increments=pin_inc, pin_date=pin_date)
    unchanged = new is None or all(new[f] == st[f] for f in ("year_y", "month", "inc0"))
    if real is None:
        return unchanged
    if unchanged:
        return False
    w = v2version.parse_version_info(real, PAT)
    return (w.year_y, w.month, w.inc0) == (new["year_y"], new["month"], new["inc0"])
