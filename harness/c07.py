"""C07 — literal pattern text matches only itself.

Real code: v2patterns._compile_pattern_re / _replace_pattern_parts, v1patterns._compile_pattern_re, patterns.RE_PATTERN_ESCAPES,
v2version._format_segment (rendering of literal text).
Symbolic: the literal text (over the property's alphabet: printable ASCII without upper case, brackets only escaped).
The regex *source* is observed (re.compile replaced by identity inside the pattern modules); L2 parses the source of each
single character with CPython's regex parser and requires a single LITERAL node.
"""
import vp.chpatch  # noqa
import json
import os
import re

from bumpver import v2patterns, v1patterns, v2version

P = json.loads(os.environ.get("VP_PARAMS", "{}"))
ENGINE = P.get("engine", "v2")
LEN = P.get("len", 2)
EXCLUDE = P.get("exclude", "")      # characters of open known-finding classes
ONLY = P.get("only", "")
MOD = v2patterns if ENGINE == "v2" else v1patterns

BASE_ALPHA = "".join(chr(c) for c in range(32, 127) if not chr(c).isupper() and chr(c) not in "[]")
ALPHA = "".join(c for c in BASE_ALPHA if c not in EXCLUDE)
REGEX_SPECIAL = ".^$*+?{}[]\\|()"
SPECIALS = ".*+?{}()-|\\"   # characters that need a backslash to be literal in a regex ('-' is harmless either way)


class _ReShim:
    subn = staticmethod(re.subn)
    error = re.error

    @staticmethod
    def compile(s, flags=0):
        return s


def regex_source(text):
    saved = MOD.re
    MOD.re = _ReShim
    try:
        return MOD._compile_pattern_re(text)
    finally:
        MOD.re = saved


def in_alpha(s) -> bool:
    for c in s:
        if c not in ALPHA:
            return False
    if ONLY:
        for c in ONLY:
            if c in s:
                return True
        return False
    return True


def mid_anchor_ok(s) -> bool:
    """leading '^' and trailing '$' are anchors by definition of the property; elsewhere they are literal text"""
    return True


def _image(c):
    return regex_source(c)


def homomorphism(lit: str) -> bool:
    """the regex source of literal text is the concatenation of the per-character images: no character changes the meaning
    of its neighbours
    pre: 1 <= len(lit) <= LEN and in_alpha(lit) and lit[0] != "^" and lit[-1] != "$"
    post: _
    """
    want = ""
    for c in lit:
        want += _image(c)
    return regex_source(lit) == want


def entry_homomorphism(lit: str) -> bool:
    """the same through the real entry point compile_pattern (pattern normalisation included): every character of the search
    pattern, leading and trailing blanks too, arrives in the regex
    pre: 1 <= len(lit) <= LEN and in_alpha(lit) and lit[0] != "^" and lit[-1] != "$"
    post: _
    """
    vp = "MAJOR.MINOR" if ENGINE == "v2" else "{semver}"
    saved = MOD.re
    MOD.re = _ReShim
    try:
        got = MOD.compile_pattern.__wrapped__(vp, lit).regexp
    finally:
        MOD.re = saved
    want = ""
    for c in lit:
        want += _image(c)
    return got == want


def around_part(a: str, b: str) -> bool:
    """literal text around a real part: the part's regex appears once, between the images of the literal characters
    pre: len(a) <= 1 and len(b) <= 1 and in_alpha(a) and in_alpha(b) and a != "^" and b != "$" and (len(a) == 0 or len(b) == 0)
    post: _
    """
    part = "MAJOR" if ENGINE == "v2" else "{MAJOR}"
    core = regex_source(part)
    want = ""
    for c in a:
        want += _image(c)
    want += core
    for c in b:
        want += _image(c)
    return regex_source(a + part + b) == want


def single_char_literal(i: int) -> bool:
    """per-character audit (finite alphabet: the solver only enumerates i): the image of a character parses to one LITERAL node
    pre: 0 <= i < len(ALPHA)
    post: _
    """
    c = ALPHA[i]
    if c in "^$" and not ONLY:
        return True   # as a whole pattern they are the documented anchors
    src = regex_source(c)
    try:
        tree = re._parser.parse(src)
    except re.error:
        return False
    items = list(tree)
    if not (len(items) == 1 and items[0][0] == re._constants.LITERAL and items[0][1] == ord(c)):
        return False
    # literal in *every* context: a character that is special to the regex syntax anywhere must carry its backslash
    # ('{' alone parses as a literal, but 'x{2}' is a quantifier), otherwise concatenating images could change the meaning
    if c in REGEX_SPECIAL:
        return src == "\\" + c
    return src == c or src == "\\" + c


def mid_anchor_literal(i: int) -> bool:
    """'^' / '$' in the middle of a pattern are literal text
    pre: 0 <= i <= 1
    post: _
    """
    c = "^$"[i]
    src = regex_source("a" + c + "b")
    try:
        tree = list(re._parser.parse(src))
    except re.error:
        return False
    return len(tree) == 3 and all(t[0] == re._constants.LITERAL for t in tree) and tree[1][1] == ord(c)


def render_literal(lit: str) -> bool:
    """rendering: literal text is written as is, with the escaped brackets resolved and the two anchors dropped
    pre: len(lit) <= LEN and in_alpha(lit) and "^" not in lit and "$" not in lit
    post: _
    """
    seg = "\\[" + lit + "\\]"
    got = v2version._format_segment(seg, [])
    return got.is_literal and got.result == "[" + lit + "]"


def twin_no_escape(lit: str) -> bool:
    """reachability twin (must be refuted): some character is escaped
    pre: len(lit) == 1 and in_alpha(lit)
    post: _
    """
    return regex_source(lit) == lit
