"""Integer calendar stub (DESIGN §2.3): environment model for datetime.date / strftime as used by bumpver.

One definition, three carriers: plain ints (validation against CPython's datetime, replays), CrossHair symbolic ints
(`ite` forks) and z3 Int terms (`ite` becomes z3.If) — so E1 and E2 share the calendar.
Contract: agrees with datetime.date and glibc strftime(%Y %m %d %j %G %V %W %U) on 1000-01-01 .. 9999-12-31.
"""
import builtins

try:
    import z3 as _z3
except ImportError:  # pragma: no cover
    _z3 = None

try:  # CrossHair carriers: build If/And/Or terms instead of forking a path per calendar case distinction
    from crosshair.libimpl.builtinslib import SymbolicInt as _SI, SymbolicBool as _SB
    from crosshair.tracers import NoTracing as _NT
    import z3 as _chz3
except ImportError:  # pragma: no cover
    _SI = _SB = None


def _ch(*xs):
    """is any argument a CrossHair symbolic int/bool (checked with tracing off: proxies lie about their type)"""
    if _SI is None:
        return False
    with _NT():
        for x in xs:
            if isinstance(x, (_SI, _SB)):
                return True
    return False


def _v(x):
    """z3 term of a CrossHair value or python literal (call with tracing off)"""
    if isinstance(x, (_SI, _SB)):
        return x.var
    if isinstance(x, bool):
        return _chz3.BoolVal(x)
    return _chz3.IntVal(x)


CUM = (0, 31, 59, 90, 120, 151, 181, 212, 243, 273, 304, 334, 365)  # days before month m+1 in a common year


def _isz3(*xs):
    return _z3 is not None and any(isinstance(x, _z3.ExprRef) for x in xs)


def ite(c, a, b):
    if _isz3(c, a, b):
        return _z3.If(c, a, b)
    if _ch(c):
        with _NT():
            return _SI(_chz3.If(_v(c), _v(a), _v(b)))
    return a if c else b


def and_(*cs):
    if _isz3(*cs):
        return _z3.And(*cs)
    if _ch(*cs):
        with _NT():
            return _SB(_chz3.And(*[_v(c) for c in cs]))
    for c in cs:
        if not c:
            return False
    return True


def or_(*cs):
    if _isz3(*cs):
        return _z3.Or(*cs)
    if _ch(*cs):
        with _NT():
            return _SB(_chz3.Or(*[_v(c) for c in cs]))
    for c in cs:
        if c:
            return True
    return False


def not_(c):
    if _isz3(c):
        return _z3.Not(c)
    if _ch(c):
        with _NT():
            return _SB(_chz3.Not(_v(c)))
    return not c


def fdiv(a, b):
    """floor division by a positive constant"""
    if _isz3(a):
        return a / b  # z3 Int division: floor for positive divisors
    return a // b


def is_leap(y):
    return and_(y % 4 == 0, or_(not_(y % 100 == 0), y % 400 == 0))


def leap01(y):
    return ite(is_leap(y), 1, 0)


def days_before_year(y):
    y1 = y - 1
    return y1 * 365 + fdiv(y1, 4) - fdiv(y1, 100) + fdiv(y1, 400)


def days_in_year(y):
    return 365 + leap01(y)


def days_in_month(y, m):
    return ite(m == 2, 28 + leap01(y), ite(or_(m == 4, m == 6, m == 9, m == 11), 30, 31))


def days_before_month(y, m):
    """days of year y before month m (1..12)"""
    res = 0
    for k in range(12, 1, -1):
        res = ite(m == k, CUM[k - 1] + (leap01(y) if k > 2 else 0), res) if k > 2 else ite(m == k, CUM[k - 1], res)
    return res


def month_from_doy(y, j):
    lp = leap01(y)
    res = 12
    for m in range(11, 0, -1):
        bound = CUM[m] + (lp if m >= 2 else 0)
        res = ite(j <= bound, m, res)
    return res


def doy_from_md(y, m, d):
    return days_before_month(y, m) + d


def weekday(y, j):
    """Monday = 0"""
    return (days_before_year(y) + j + 6) % 7


def week_w(y, j):  # %W, weeks starting Monday, days before the first Monday are week 0
    return fdiv(j + 6 - weekday(y, j), 7)


def week_u(y, j):  # %U, weeks starting Sunday
    return fdiv(j + 6 - (weekday(y, j) + 1) % 7, 7)


def _p(y):
    return (y + fdiv(y, 4) - fdiv(y, 100) + fdiv(y, 400)) % 7


def iso_weeks_in_year(y):
    return ite(or_(_p(y) == 4, _p(y - 1) == 3), 53, 52)


def iso_year_week(y, j):
    wk = fdiv(j - weekday(y, j) + 9, 7)
    gy = ite(wk < 1, y - 1, ite(wk > iso_weeks_in_year(y), y + 1, y))
    gw = ite(wk < 1, iso_weeks_in_year(y - 1), ite(wk > iso_weeks_in_year(y), 1, wk))
    return gy, gw


def quarter(m):
    return fdiv(m - 1, 3) + 1


def fields(y, j):
    """all nine calendar fields of bumpver's V2CalendarInfo for day j of year y"""
    m = month_from_doy(y, j)
    d = j - days_before_month(y, m)
    gy, gw = iso_year_week(y, j)
    return {"year_y": y, "year_g": gy, "quarter": quarter(m), "month": m, "dom": d, "doy": j,
            "week_w": week_w(y, j), "week_u": week_u(y, j), "week_v": gw}


# ---------------------------------------------------------------------------------------------------------------------
# object layer: stands in for the `dt` module inside bumpver.v2version / v1version / version

class FieldStr(str):
    """what the stub strftime returns: int(...) yields .value without a str->int round trip through the solver"""

    def __new__(cls, value):
        self = str.__new__(cls, "<field>")
        self.value = value
        return self


def smart_int(x=0, *a, **kw):
    if type(x) is FieldStr:
        return x.value
    return builtins.int(x, *a, **kw)


class SymDate:
    def __init__(self, year, month=None, day=None, doy=None):
        self.year = year
        self._m, self._d, self._j = month, day, doy

    @property
    def doy(self):
        if self._j is None:
            self._j = doy_from_md(self.year, self._m, self._d)
        return self._j

    @property
    def month(self):
        if self._m is None:
            self._m = month_from_doy(self.year, self._j)
        return self._m

    @property
    def day(self):
        if self._d is None:
            self._d = self._j - days_before_month(self.year, self.month)
        return self._d

    def field(self, key):
        y, j = self.year, self.doy
        if key == "Y":
            return y
        if key == "m":
            return self.month
        if key == "d":
            return self.day
        if key == "j":
            return j
        if key == "W":
            return week_w(y, j)
        if key == "U":
            return week_u(y, j)
        gy, gw = iso_year_week(y, j)
        if key == "G":
            return gy
        if key == "V":
            return gw
        raise ValueError(f"directive %{key} is not modelled")

    def strftime(self, fmt):
        assert len(fmt) == 2 and fmt[0] == "%", fmt
        return FieldStr(self.field(fmt[1]))

    def isoformat(self):
        return f"{self.year}-{self.month}-{self.day}"

    def toordinal(self):
        return days_before_year(self.year) + self.doy

    def __sub__(self, other):
        if isinstance(other, SymDate):
            return SymTimedelta(days=self.toordinal() - other.toordinal())
        return self + SymTimedelta(days=-other.days)

    def __add__(self, td):
        j = self.doy + td.days
        n = days_in_year(self.year)
        if 1 <= j <= n:
            return SymDate(self.year, doy=j)
        if n < j <= n + 365:
            return SymDate(self.year + 1, doy=j - n)  # date_from_doy(y, 366) in a common year is Jan 1 of y+1
        if -365 <= j < 1:
            return SymDate(self.year - 1, doy=j + days_in_year(self.year - 1))
        raise OverflowError("stub: addition leaves the modelled range")


class SymTimedelta:
    def __init__(self, days=0):
        self.days = days


def make_date(y, m, d):
    if not (1 <= y <= 9999):
        raise ValueError("year out of range")
    if not (1 <= m <= 12):
        raise ValueError("month must be in 1..12")
    if not (1 <= d <= days_in_month(y, m)):
        raise ValueError("day is out of range for month")
    return SymDate(y, m, d)


class DT:
    """namespace bound to `<module>.dt`"""
    date = staticmethod(make_date)
    timedelta = SymTimedelta


class Bound:
    """context manager: bind the stub into bumpver's modules (no source edit) and restore afterwards"""

    def __init__(self, today=None):
        self.today = today

    def __enter__(self):
        from bumpver import v2version, v1version, version
        self.mods = (v2version, v1version, version)
        self.saved = [(m, m.dt, getattr(m, "int", None)) for m in self.mods]
        for m in self.mods:
            m.dt = DT
            m.int = smart_int
        self.saved_today = version.TODAY
        if self.today is not None:
            version.TODAY = self.today
        return self

    def __exit__(self, *a):
        from bumpver import version
        for m, d, i in self.saved:
            m.dt = d
            if i is None:
                try:
                    del m.int
                except AttributeError:
                    pass
            else:
                m.int = i
        version.TODAY = self.saved_today
        return False


# ---------------------------------------------------------------------------------------------------------------------
# validation against CPython (concrete)

def _check_years(years):
    import datetime as dt
    errs, n = [], 0
    for y in years:
        d = dt.date(y, 1, 1)
        j = 0
        while d.year == y:
            j += 1
            f = fields(y, j)
            want = {"year_y": d.year, "year_g": int(d.strftime("%G")), "quarter": (d.month - 1) // 3 + 1, "month": d.month,
                    "dom": d.day, "doy": int(d.strftime("%j")), "week_w": int(d.strftime("%W")), "week_u": int(d.strftime("%U")),
                    "week_v": int(d.strftime("%V"))}
            n += 1
            if f != want and len(errs) < 5:
                errs.append(f"{d}: stub {f} != CPython {want}")
            s = make_date(y, d.month, d.day)
            if (s.doy, s.field("W"), s.field("V")) != (want["doy"], want["week_w"], want["week_v"]) and len(errs) < 5:
                errs.append(f"{d}: (y,m,d) constructor disagrees")
            if d.year == 9999 and d.month == 12 and d.day == 31:
                break
            d = d + dt.timedelta(days=1)
        # impossible dates raise exactly where datetime.date raises
        for m, dd in ((2, 29), (2, 30), (4, 31), (13, 1), (0, 1), (1, 0), (1, 32)):
            try:
                dt.date(y, m, dd)
                ok = True
            except ValueError:
                ok = False
            try:
                make_date(y, m, dd)
                ok2 = True
            except ValueError:
                ok2 = False
            n += 1
            if ok != ok2 and len(errs) < 5:
                errs.append(f"({y},{m},{dd}): validity differs")
        # date_from_doy for doy 366 (roll-over in common years)
        r = SymDate(y, 1, 1) + SymTimedelta(365)
        if y < 9999:
            w = dt.date(y, 1, 1) + dt.timedelta(days=365)
            n += 1
            if (r.year, r.month, r.day) != (w.year, w.month, w.day) and len(errs) < 5:
                errs.append(f"{y}: Jan 1 + 365 days differs")
    return n, errs


def validate(tier="quick"):
    import multiprocessing as mp
    if tier == "quick":
        years = list(range(1900, 2300)) + [1000, 1001, 1582, 1600, 1700, 9998, 9999]
        chunks = [years[i::16] for i in range(16)]
    else:
        chunks = [list(range(a, min(a + 250, 10000))) for a in range(1000, 10000, 250)]
    with mp.Pool(16) as pool:
        res = pool.map(_check_years, chunks)
    return sum(r[0] for r in res), [e for r in res for e in r[1]][:5]
