"""C18 obligations (DESIGN §4.18) — TOML side at reader-output level."""
import itertools
from vp.runner import Ob

INFO = {
    "design_ref": "§4.18",
    "functions": ["config.parse", "config._parse_raw_config", "config._parse_cfg", "config._ConfigParser (real configparser)",
                  "config._parse_toml", "config._set_raw_config_defaults", "config._parse_config", "config._parse_cfg_file_patterns",
                  "config._parse_current_version_default_pattern", "config._compile_file_patterns", "config.init_project_ctx"],
    "bounds": "meaning lattice: commit x tag {absent,false,true} x push {absent,false,true} x tag_scope {absent,default,global,branch} x "
              "commit_message {absent, 2 templates} x pre-commit hook {absent, existing script, missing script} x file sets {none, 1 file, 2 entries incl. a glob} x own file listed or implicit; INI "
              "spellings: 6 true / 6 false spellings, 3 quoting styles; TOML files bumpver.toml, .bumpver.toml, pyproject.toml; "
              "[pycalver] legacy sections. The lattice is finite: the solver enumerates it path by path (stated as enumeration)",
    "outside": "NOT claimed: TOML text-level behaviour (escapes, multi-line strings, inline tables) - toml.load is stubbed by contract "
               "because the real decoder does not run on symbolic text (probe P41); free-text messages",
    "stubs": ["toml.load -> the dict the generated TOML text denotes (text/dict pairs validated against the real toml.loads on every run)",
              "in-memory file system"],
    "assumptions": [],
}


def validations(tier):
    import importlib.util, os, sys
    here = os.path.dirname(os.path.dirname(os.path.dirname(os.path.abspath(__file__))))
    sys.path.insert(0, here)
    spec = importlib.util.spec_from_file_location("c18_validate", os.path.join(here, "harness", "c18.py"))
    mod = importlib.util.module_from_spec(spec)
    spec.loader.exec_module(mod)
    return [("stubbed toml.load vs real toml.loads on the generated texts", mod.validate_toml_contract)]


QUICK_SHARDS = [  # (toml file, legacy section, spelling, quoting, files, msg, own listed): every value of every dimension occurs
    ("bumpver.toml", False, 0, 0, 0, 0, True), ("bumpver.toml", False, 1, 1, 1, 1, False), ("bumpver.toml", False, 2, 2, 2, 2, True),
    ("bumpver.toml", False, 3, 0, 2, 1, False), ("bumpver.toml", False, 4, 1, 0, 2, False), ("bumpver.toml", False, 5, 2, 1, 0, True),
    ("pyproject.toml", False, 1, 0, 2, 0, False), (".bumpver.toml", False, 4, 2, 1, 1, True), ("bumpver.toml", True, 2, 1, 1, 2, False),
    ("bumpver.toml", False, 0, 1, 3, 1, False),
]


def obligations(tier):
    t = 600 if tier == "quick" else 1800
    obs = []
    if tier == "quick":
        shards = QUICK_SHARDS
    else:
        shards = [(f, leg, sp, q, fl, m, own) for (f, leg) in [("bumpver.toml", False), (".bumpver.toml", False), ("pyproject.toml", False),
                                                                ("bumpver.toml", True)]
                  for sp, q, fl, m, own in itertools.product(range(6), range(3), range(4), range(3), (False, True))
                  if f == "bumpver.toml" and not leg or (sp + q + fl + m) % 6 == 0]
    for f, leg, sp, q, fl, m, own in shards:
        obs.append(Ob(f"L1.same_meaning[setup.cfg vs {f}{' [pycalver]' if leg else ''}; spelling {sp}, quoting {q}, files {fl}, message {m}, "
                      f"own line {'listed' if own else 'implicit'}]", "c18.py", "same_meaning",
                      {"toml_file": f, "legacy_section": leg,
                       "fix": {"spell": sp, "quote": q, "files": fl, "msg": m, "own_listed": own, "hook": (sp + fl) % 3}}, timeout=t))
    obs.append(Ob("twin.some_config_parses", "c18.py", "twin_never_parses", {}, expect="refute", timeout=120))
    return obs
