"""C15 obligations (DESIGN §4.15)."""
from vp import grammar, refmodel as rm, gen
from vp.runner import Ob, finding_open
from vp.props import c02 as _c02

INFO = {
    "design_ref": "§4.15",
    "functions": ["v2patterns._convert_to_pep440", "v2patterns.normalize_pattern", "v2patterns.compile_pattern", "v2version.format_version",
                  "setuptools_v65_version.Version", "version.PEP440_TAG_BY_TAG / TAG_BY_PEP440_TAG"],
    "bounds": "patterns with prefix ''/'v' from the README table and tests (quick 7, thorough ~30); numeric parts 0..99 (quick) / 0..999, "
              "years 1000..9999, BUILD 4 digits with 0..1 leading zeros, every tag x NUM; one obligation per digit-length class combination",
    "outside": "versions that are not PEP 440 versions themselves (the property is conditional); parts above the bound; "
               "equality of the printed PEP440 line is checked through Version._version/_key, not as text",
    "stubs": [],
    "assumptions": [],
}
KEY_DASH = "C15:'-' between two numeric parts (vYYYY.INC0[-PATCH], YYYY0M-BUILD): implicit post release lost in {pep440_version}"

QUICK = ["vYYYY.0M.PATCH[-TAG[NUM]]", "MAJOR.MINOR.PATCH[PYTAGNUM]", "vYYYY0M.BUILD[-TAG]", "YYYY.MM[.INC0]", "vMAJOR.MINOR[.PATCH[-TAGNUM]]",
         "YYYY.0M.0D", "vYY.BLD[-PYTAGNUM]",
         # one pattern per entry of the zero-padding substitution table (0W, 0U, 0V, 00J; 0M, 0D, BUILD, TAG are above)
         "YYYY.0W.PATCH", "YYYY.0U.PATCH", "GGGG.0V.PATCH", "YYYY.00J",
         # tag groups with '.' separators (what is left of the group after TAG/NUM moved to [PYTAGNUM] must vanish)
         "MAJOR.MINOR.PATCH[.TAG]", "MAJOR.MINOR.PATCH[-TAG.NUM]"]
import re as _re
# the class of the open finding: a '-' directly in front of a numeric part (computed from the pattern list, not enumerated by hand)
DASHED = [p for p in grammar.G_DOC if _re.search(r"-(?!TAG|PYTAG)[A-Z0-9]", p)]
assert "vYYYY.INC0[-PATCH]" in DASHED


def make(pattern, ints, extra, label, t, expect="confirm", finding=None):
    g = grammar.info(pattern)
    fs = set(g["fields"])
    has_tag = "tag" in fs or "pytag" in fs
    ints = list(ints)
    fixed = {}
    if has_tag:
        ints.append(("tag_i", 0, len(rm.TAGS) - 1))
    else:
        fixed["tag_i"] = 0
    vals = "{" + ", ".join(f'"{n[2:]}": {n}' for n, _lo, _h in ints if n.startswith("o_")) + "}"
    src = gen.wrapper("c15", f"c15.pep440_same({vals}, tag_i)", ints=ints, fixed=fixed, pres=[f"c15.ok_state({vals}, tag_i)"],
                      header=f"C15 {pattern} {label}")
    return Ob(f"L1.pep440_same[{pattern}; {label}]", "c15.py", "ob", dict({"pattern": pattern}, **extra), timeout=t, source=src,
              bounds=label, expect=expect, finding=finding)


def obligations(tier):
    obs = []
    t = 300 if tier == "quick" else 1200
    hi = 99 if tier == "quick" else 999
    pats = QUICK if tier == "quick" else sorted(set(QUICK + [p for p in grammar.G_DOC if p not in DASHED]))
    small = {"MAJOR.MINOR.PATCH[.TAG]", "MAJOR.MINOR.PATCH[-TAG.NUM]", "YYYY.0W.PATCH", "YYYY.0U.PATCH", "GGGG.0V.PATCH"}
    for pat in pats:
        # the patterns added for the substitution table / tag separators use one-digit free parts in the quick tier (one shard each)
        for ints, extra, label in _c02.shards(pat, 9 if (tier == "quick" and pat in small) else hi, tier):
            obs.append(make(pat, ints, extra, label, t))
    if finding_open(KEY_DASH):
        for pat in DASHED:
            ints, extra, label = next(iter(_c02.shards(pat, 9, tier)))
            obs.append(make(pat, ints, extra, label + " (known finding witness)", t, expect="known", finding=KEY_DASH))
    obs.append(Ob("L2.tables_consistent", "c15.py", "tables_consistent", {}, timeout=60))
    obs.append(Ob("twin.some_pep440", "c15.py", "twin_never_pep440", {}, expect="refute", timeout=60))
    return obs
