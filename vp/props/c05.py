"""C05 obligations (DESIGN §4.5): real incr / _incr_numeric vs the README reference model."""
import itertools
import json

from vp import grammar, refmodel as rm, refmodel_check
from vp.runner import Ob, finding_open

INFO = {
    "design_ref": "§4.5",
    "functions": ["v2version.incr", "v2version._incr_numeric", "v2version._reset_rollover_fields", "v2version._iter_reset_field_items",
                  "v2version._parse_pattern_fields", "v2version._is_cal_gt", "v2version._ver_to_cal_info", "cli._validate_flags",
                  "lexid.next_id (BUILD patterns)", "v2version.parse_version_info + format_version (strings_step)"],
    "bounds": "numeric parts 0..120 (quick) / 0..12000 (thorough), years 1000..9999 (two-digit-year parts 2001..2099), months 1..12, "
              "weeks 0..53, BUILD id pinned to 1998 here (symbolic ids: C17), every tag x every --tag value, all 2^6 boolean flags; today's calendar fields independent "
              "symbolic values in their domains (over-approximation); patterns: see samples",
    "outside": "full-date patterns (YYYY.MM.DD, YYYY.JJJ): numeric step, --tag-num guard and result stage are in both tiers, their "
               "calendar stage only in the thorough tier (10 min per query; C14-L4 shows the real _is_cal_gt is the date order); BUILD ids outside 1000..9998 (C17); parts > 12000; GITHASH/HEXHASH",
    "stubs": ["v2version.cal_info -> symbolic today", "string seams of incr in guards_step: parse_version_info -> symbolic old state, "
              "format_version -> Rendered(state) with the contract 'equal iff states agree on the pattern's parts, empty iff all parts "
              "zero' (C02); _incr_numeric recorded in guards_step (its contract is numeric_step)"],
    "assumptions": ["reference model vp/refmodel.py is the README's rule set (validated per run against 45 README/test-suite examples, "
                    "which the real incr must reproduce as well)"],
}

KEY_PIN_WEEK0 = "C05:--pin-date when the current week number (WW/0W/UU/0U) is 0"
KEY_FINAL_TAGNUM = "C05:--tag final together with --tag-num"

QUICK = ["MAJOR.MINOR.PATCH[PYTAGNUM]", "YYYY.MM[.INC0]", "YY.0M.INC1", "vYYYY.WW[-TAGNUM]", "YYYY.BUILD[-TAG]"]
THOROUGH = list(grammar.G_DOC)
QUICK = QUICK + ["YYYY.MM.DD"] if "YYYY.MM.DD" not in QUICK else QUICK


def validations(tier):
    return [("reference model vs README examples vs real incr", refmodel_check.validate)]


def _ranges(g, hi):
    out = {}
    for part in g["parts"]:
        f = rm.PARTS[part]
        if f in ("tag", "pytag"):
            continue
        if f == "bid":
            continue  # BUILD ids are pinned per shard here (symbolic ids: C17)
        else:
            lo, h = grammar.field_domain(part, hi)
            if f in out:
                lo, h = max(lo, out[f][0]), min(h, out[f][1])
            out[f] = (lo, h)
    return out


def wrapper(kind, pattern, hi, fixed, ranges_override=None):
    """exact-signature harness for one pattern / shard. fixed: argument name -> literal (pinned per shard)"""
    g = grammar.info(pattern)
    fs = set(g["fields"])
    rng = _ranges(g, hi)
    rng.update(ranges_override or {})
    has_tag = "tag" in fs or "pytag" in fs
    calf = [f for f in rm.CAL_FIELDS if f in fs]
    fulldate = g["flavour"] == "fulldate"
    if fulldate:
        # the reader reconstructs the date: the symbolic inputs are (year, day of year); every calendar field derives from them
        rng = {f: r for f, r in rng.items() if f not in rm.CAL_FIELDS}
        rng = dict({"year_y": (1000, 9999), "doy": (1, 366)}, **rng)
        calf = ["year_y", "doy"]
    args, pres = [], []

    def add_int(name, lo, h):
        if name in fixed:
            return
        args.append(f"{name}: int")
        pres.append(f"{lo} <= {name} <= {h}")

    def add_bool(name):
        if name not in fixed:
            args.append(f"{name}: bool")

    for f, (lo, h) in rng.items():
        add_int("o_" + f, lo, h)
    if has_tag:
        add_int("tag_i", 0, len(rm.TAGS) - 1)
    elif "tag_i" in fixed:
        fixed = {k: v for k, v in fixed.items() if k != "tag_i"}
    old_vals = "{" + ", ".join([f'"{f}": o_{f}' for f in rng] + (['"bid": o_bid'] if "bid" in fs else [])) + "}"
    if "bid" in fs and "o_bid" not in fixed:
        fixed = dict(fixed, o_bid=1998)
    tag_expr = "tag_i" if has_tag else "0"
    two_digit = bool(set(g["parts"]) & grammar.TWO_DIGIT_YEAR)
    if kind == "numeric":
        for f in calf:
            lo, h = rng[f]
            add_int("c_" + f, lo, h)
        for b in ("f_major", "f_minor", "f_patch", "f_tagnum", "f_pininc"):
            add_bool(b)
        add_int("newtag_i", 0, len(rm.TAGS))
        cur_vals = "{" + ", ".join(f'"{f}": c_{f}' for f in calf) + "}"
        call = f"c05.numeric_step({old_vals}, {tag_expr}, {cur_vals}, f_major, f_minor, f_patch, f_tagnum, f_pininc, newtag_i)"
        extra_pre = []
    else:
        for f in calf:
            lo, h = grammar.CAL_DOMAIN[f]
            if two_digit and f in ("year_y", "year_g"):
                lo, h = 2001, 2099
            add_int("t_" + f, lo, h)
        for b in ("f_tagnum", "f_pindate"):
            add_bool(b)
        add_int("newtag_i", 0, len(rm.TAGS))
        today_vals = "{" + ", ".join(f'"{f}": t_{f}' for f in calf) + "}"
        extra_pre = [f"c05.pin_class_ok({old_vals}, f_pindate)", "c05.tagnum_class_ok(newtag_i, f_tagnum)"]
        if kind == "guards":
            add_int("outcome", 0, 2)
            for b in ("f_major", "f_minor", "f_patch", "f_pininc"):
                add_bool(b)
            call = (f"c05.guards_step({old_vals}, {tag_expr}, {today_vals}, f_tagnum, f_pindate, newtag_i, outcome, "
                    f"f_major, f_minor, f_patch, f_pininc)")
        else:
            for b in ("f_major", "f_minor", "f_patch", "f_pininc"):
                add_bool(b)
            call = (f"c05.strings_step({old_vals}, {tag_expr}, {today_vals}, f_major, f_minor, f_patch, f_tagnum, f_pininc, "
                    f"f_pindate, newtag_i)")
            extra_pre = extra_pre + [f"c05.valid_old({old_vals}, {tag_expr})"]
    if fulldate:
        extra_pre = list(extra_pre) + ["c05.real_day(o_year_y, o_doy)"] + \
            (["c05.real_day(c_year_y, c_doy)"] if kind == "numeric" else ["c05.real_day(t_year_y, t_doy)"])
    fixed_lines = "".join(f"{k} = {v!r}\n" for k, v in fixed.items())
    pre_lines = "".join(f"    pre: {p}\n" for p in ([" and ".join(pres)] if pres else []) + extra_pre)
    src = (
        f"# generated by vp/props/c05.py — pattern {pattern!r}, lemma {kind}, shard {fixed}\n"
        "import c05\n\n"
        f"{fixed_lines}\n\n"
        f"def ob({', '.join(args)}) -> bool:\n"
        f'    """\n{pre_lines}    post: _\n    """\n'
        f"    return {call}\n"
    )
    return src


def _params(pattern, extra=None):
    p = {"pattern": pattern}
    p.update(extra or {})
    return p


def obligations(tier):
    obs = []
    hi = 120 if tier == "quick" else 12000
    t = 300 if tier == "quick" else 1200
    pats = QUICK if tier == "quick" else THOROUGH
    open_week0 = finding_open(KEY_PIN_WEEK0)
    open_final = finding_open(KEY_FINAL_TAGNUM)
    for pat in pats:
        g = grammar.info(pat)
        fs = set(g["fields"])
        has_tag = "tag" in fs or "pytag" in fs
        has_num = "num" in fs
        # L1 numeric step: shard over --tag value (and --tag-num when NUM is in the pattern)
        newtags = range(len(rm.TAGS) + 1) if has_tag else [0]
        tagnums = (False, True) if (has_num or has_tag) else (False,)
        for nt, tn in itertools.product(newtags, tagnums):
            fixed = {"newtag_i": nt, "f_tagnum": tn}
            if not has_tag and not has_num:
                fixed = {"newtag_i": 0, "f_tagnum": False}
            obs.append(Ob(f"L1.numeric_step[{pat}; --tag {([None] + rm.TAGS)[nt]}{' --tag-num' if tn else ''}]", "c05.py", "ob",
                          _params(pat), timeout=t, source=wrapper("numeric", pat, hi, fixed),
                          bounds=json.dumps(_ranges(g, hi))))
        # L2 guards step, one lemma per stage of incr (the stages are sequential; the cross product is strings_step's subject)
        extra = {}
        if open_week0:
            extra["exclude_pin_week0"] = True
        if open_final:
            extra["exclude_final_tagnum"] = True
        passthru = {"f_major": False, "f_minor": True, "f_patch": False, "f_pininc": True}
        calf = [f for f in rm.CAL_FIELDS if f in fs]
        if g["flavour"] == "fulldate":
            calf = ["year_y", "doy"]
        mid = {f: (2020 if f.startswith("year") else 3) for f in calf}
        old_fix = {"o_" + f: v for f, v in mid.items()}
        today_fix = {"t_" + f: v for f, v in mid.items()}
        num_fix = {"o_" + f: 1 for f in _ranges(g, hi) if f not in rm.CAL_FIELDS}
        # (a) calendar stage: today / pinned / version in the future; flags handed on (symbolic, compared by identity)
        if calf and g["flavour"] == "fulldate":
            # every calendar field derives from (year, day of year) on both sides: ~10 min per query, thorough tier only
            if tier != "quick":
                for pin in (False, True):
                    fixed = dict(num_fix, tag_i=0, newtag_i=0, f_tagnum=False, outcome=2, f_pindate=pin)
                    obs.append(Ob(f"L2a.guards_step.calendar[{pat}; pin-date {pin}]", "c05.py", "ob", _params(pat, extra), timeout=1800,
                                  source=wrapper("guards", pat, hi, fixed), bounds="any two dates 1000..9999"))
        elif calf:
            fixed = dict(num_fix, tag_i=0, newtag_i=0, f_tagnum=False, outcome=2)
            obs.append(Ob(f"L2a.guards_step.calendar[{pat}]", "c05.py", "ob", _params(pat, extra), timeout=t,
                          source=wrapper("guards", pat, hi, fixed), bounds="old and today's calendar fields, --pin-date, 4 pass-through flags symbolic"))
            if open_week0 and ({"week_w", "week_u"} & fs):
                obs.append(Ob(f"L2a.guards_step.calendar[{pat}; known: pin-date week 0]", "c05.py", "ob", _params(pat, {"only_pin_week0": True}),
                              expect="known", finding=KEY_PIN_WEEK0, timeout=t, source=wrapper("guards", pat, hi, fixed)))
        # (b) --tag-num guard: every current tag x every --tag value x --tag-num x --pin-date
        fixed = dict(num_fix, **old_fix, **today_fix, outcome=2, **passthru)
        obs.append(Ob(f"L2b.guards_step.tagnum_guard[{pat}]", "c05.py", "ob", _params(pat, extra), timeout=t,
                      source=wrapper("guards", pat, hi, fixed), bounds="tag x --tag x --tag-num x --pin-date"))
        if open_final and has_tag:
            obs.append(Ob(f"L2b.guards_step.tagnum_guard[{pat}; known: --tag final --tag-num]", "c05.py", "ob",
                          _params(pat, {"only_final_tagnum": True}), expect="known", finding=KEY_FINAL_TAGNUM, timeout=t,
                          source=wrapper("guards", pat, hi, fixed)))
        # (c) result stage: empty / unchanged / changed result of the numeric step, from an arbitrary old state
        fixed = dict(today_fix, newtag_i=0, f_tagnum=False, f_pindate=True, **passthru)
        obs.append(Ob(f"L2c.guards_step.result[{pat}]", "c05.py", "ob", _params(pat, extra), timeout=t,
                      source=wrapper("guards", pat, hi, fixed), bounds=json.dumps(_ranges(g, hi))))
    # end to end on real strings (real parse + format inside incr), thorough tier: the cross product of flags on one-digit values
    # (a full product over tags and two-digit values does not finish: 30 min per shard, not confirmed)
    if tier != "quick":
        for pat in ("MAJOR.MINOR.PATCH[PYTAGNUM]", "YYYY.MM[.INC0]"):
            g = grammar.info(pat)
            has_tag = "tag" in set(g["fields"]) or "pytag" in set(g["fields"])
            for ti, nt in (((0, 0), (2, 0), (0, 3), (3, 1)) if has_tag else ((0, 0),)):
                fixed = {"newtag_i": nt, "f_pindate": False}
                if has_tag:
                    fixed["tag_i"] = ti
                small = {f: (r[0], min(r[1], r[0] + 2)) if f not in ("year_y",) else (2020, 2021) for f, r in _ranges(g, 9).items()}
                obs.append(Ob(f"L5.strings_step[{pat}; tag {rm.TAGS[ti]} --tag {([None] + rm.TAGS)[nt]}]", "c05.py", "ob",
                              _params(pat), timeout=1800, source=wrapper("strings", pat, 9, fixed, ranges_override=small),
                              bounds=json.dumps(small)))
    # fixed-signature lemmas
    extra = {"exclude_pin_week0": True} if open_week0 else {}
    obs.append(Ob("L3.pin_date_keeps_fields", "c05.py", "pin_date_keeps_fields", extra, timeout=t))
    if open_week0:
        obs.append(Ob("L3.pin_date_keeps_fields[known: week 0]", "c05.py", "pin_date_keeps_fields", {"only_pin_week0": True},
                      expect="known", finding=KEY_PIN_WEEK0, timeout=t))
    obs.append(Ob("L4.validate_flags", "c05.py", "validate_flags", {}, timeout=t))
    obs.append(Ob("twin.incr_announces", "c05.py", "twin_never_version", {"pattern": "MAJOR.MINOR.PATCH"}, expect="refute", timeout=60))
    return obs
