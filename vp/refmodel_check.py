"""Validation of the reference model against the README's worked examples and the suite's tables:
the README output, the real `incr` and the model must agree (run concretely on every check run)."""
import datetime as dt

from vp import refmodel as rm

D = dt.date
EX = [
    ("1.2.3", "MAJOR.MINOR.PATCH[PYTAGNUM]", dict(major=True), None, "2.0.0"),
    ("1.2.3", "MAJOR.MINOR.PATCH[PYTAGNUM]", dict(minor=True), None, "1.3.0"),
    ("1.2.3", "MAJOR.MINOR.PATCH[PYTAGNUM]", dict(patch=True), None, "1.2.4"),
    ("1.2.3", "MAJOR.MINOR.PATCH[PYTAGNUM]", dict(patch=True, tag="beta"), None, "1.2.4b0"),
    ("1.2.4b0", "MAJOR.MINOR.PATCH[PYTAGNUM]", dict(tag_num=True), None, "1.2.4b1"),
    ("2020.10.0", "YYYY.MM.PATCH", dict(patch=True), D(2020, 10, 15), "2020.10.1"),
    ("2020.10.0", "YYYY.MM.PATCH", dict(), D(2020, 10, 15), None),
    ("2020.10.1", "YYYY.MM.PATCH", dict(), D(2020, 11, 1), "2020.11.0"),
    ("2020.9.1", "YYYY.MM[.PATCH]", dict(patch=True), D(2020, 10, 15), "2020.10"),
    ("2020.10", "YYYY.MM[.PATCH]", dict(patch=True), D(2020, 10, 15), "2020.10.1"),
    ("2020.10.1", "YYYY.MM[.PATCH]", dict(patch=True), D(2020, 10, 15), "2020.10.2"),
    ("v2020.41-beta0", "vYYYY.WW[-TAGNUM]", dict(), D(2020, 10, 15), None),
    ("v2020.41-beta0", "vYYYY.WW[-TAGNUM]", dict(tag_num=True), D(2020, 10, 15), "v2020.41-beta1"),
    ("v2020.41-beta0", "vYYYY.WW[-TAGNUM]", dict(tag="final"), D(2020, 10, 15), "v2020.41"),
    ("2020.10.1", "YYYY.MM.INC0", dict(), D(2020, 10, 15), "2020.10.2"),
    ("2020.10.2", "YYYY.MM.INC0", dict(), D(2020, 11, 1), "2020.11.0"),
    ("2020.10", "YYYY.MM[.INC0]", dict(), D(2020, 10, 15), "2020.10.1"),
    ("2020.10.1", "YYYY.MM[.INC0]", dict(), D(2020, 11, 1), "2020.11"),
    ("2020.1001", "YYYY.BUILD", dict(), D(2020, 10, 15), "2020.1002"),
    ("2020.1002", "YYYY.BUILD", dict(), D(2020, 10, 15), "2020.1003"),
    ("2020.1999", "YYYY.BUILD", dict(), D(2020, 10, 15), "2020.22000"),
    ("v2020.1051-beta", "vYYYY.BUILD[-TAG]", dict(), D(2020, 10, 15), "v2020.1052-beta"),
    ("v2020.1051-beta", "vYYYY.BUILD[-TAG]", dict(), D(2021, 1, 1), "v2021.1052-beta"),
    ("v2020.1051-beta", "vYYYY.BUILD[-TAG]", dict(tag="rc"), D(2020, 10, 15), "v2020.1052-rc"),
    ("v2020.1051-beta", "vYYYY.BUILD[-TAG]", dict(tag="final"), D(2020, 10, 15), "v2020.1052"),
    ("v2020.37-beta", "vYYYY.WW[-TAG]", dict(), D(2020, 10, 15), "v2020.41-beta"),
    ("v2020.37", "vYYYY.WW", dict(), D(2020, 10, 15), "v2020.41"),
    ("v2017.0", "vYYYY.INC0[-PATCH]", dict(pin_increments=True, patch=True), D(2017, 5, 5), "v2017.0-1"),
    ("v2017.0-1", "vYYYY.INC0[-PATCH]", dict(pin_increments=True, patch=True), D(2017, 5, 5), "v2017.0-2"),
    ("v2017.1", "vYYYY.INC1[-PATCH]", dict(pin_increments=True, patch=True), D(2017, 5, 5), "v2017.1-1"),
    # test_cli.py ROLLOVER_TEST_CASES (v2 rows)
    ("2020.10.3", "YYYY.MM.MINOR", dict(minor=True), D(2020, 10, 1), "2020.10.4"),
    ("2020.10.3", "YYYY.MM.MINOR", dict(), D(2020, 10, 1), None),
    ("2020.10.3", "YYYY.MM.MINOR", dict(minor=True), D(2020, 11, 1), "2020.11.0"),
    ("2020.10.3", "YYYY.MM.MINOR", dict(), D(2020, 11, 1), "2020.11.0"),
    ("2020.10.3", "YYYY.MM[.MINOR]", dict(minor=True), D(2020, 10, 1), "2020.10.4"),
    ("2020.10.3", "YYYY.MM[.MINOR]", dict(), D(2020, 11, 1), "2020.11"),
    ("2020.10.3", "YYYY.MM.MINOR", dict(), D(2021, 10, 1), "2021.10.0"),
    ("2020.10.3", "YYYY.MM.INC0", dict(), D(2020, 10, 1), "2020.10.4"),
    ("2020.10.3", "YYYY.MM.INC0", dict(), D(2020, 11, 1), "2020.11.0"),
    ("2020.10.3", "YYYY.MM.INC0", dict(), D(2021, 10, 1), "2021.10.0"),
    ("2020.10.3", "YYYY.MM.INC1", dict(), D(2020, 10, 1), "2020.10.4"),
    ("2020.10.3", "YYYY.MM.INC1", dict(), D(2020, 11, 1), "2020.11.1"),
    ("2020.10.3", "YYYY.MM.INC1", dict(), D(2021, 10, 1), "2021.10.1"),
    # old version in the future / pinned date
    ("2031.12.1", "YYYY.MM.PATCH", dict(patch=True), D(2020, 10, 15), "2031.12.2"),
    ("2020.9.1", "YYYY.MM.PATCH", dict(patch=True, pin_date=True), D(2020, 10, 15), "2020.9.2"),
]


def validate():
    from bumpver import v2version
    errs = []
    for old, pat, kw, date, exp in EX:
        date = date or D(2020, 10, 15)
        real = v2version.incr(old, pat, maybe_date=date, **kw)
        ast = rm.parse_pattern(pat)
        st = dict(v2version.parse_version_info(old, pat)._asdict())
        cal = dict(v2version.cal_info(date)._asdict())
        new = rm.bump(ast, st, cal, **kw)
        model = None
        if new is not None:
            model = rm.render(ast, new)
            if model == "" or model == old:
                model = None
        if not (real == exp == model):
            errs.append(f"{old} {pat} {kw} {date}: README/test={exp!r} real={real!r} model={model!r}")
        if rm.render(ast, st) != old:
            errs.append(f"reference renderer: {old!r} != {rm.render(ast, st)!r} for {pat}")
    return len(EX), errs
