import chfix, logging; logging.disable(logging.CRITICAL)
import typing as typ
from bumpver import setuptools_v65_version as sv
NORM = {"a": "a", "b": "b", "c": "rc", "rc": "rc", "alpha": "a", "beta": "b", "pre": "rc", "preview": "rc"}
SEP = ["", "-", "_", "."]
def _chk(spelling, a, b, n, s1, s2, v, lead0):
    s = ("v" if v else "") + str(a) + "." + ("0" if lead0 else "") + str(b) + SEP[s1] + spelling + SEP[s2] + str(n)
    ver = sv.parse(s)
    if not isinstance(ver, sv.Version):
        return False
    ok = ver.release == (a, b) and ver.pre == (NORM[spelling.lower()], n) and ver.post is None and ver.dev is None and ver.epoch == 0
    canon = sv.Version(str(ver))
    return ok and canon._key == ver._key
def beta(a: int, b: int, n: int, s1: int, s2: int, v: bool, lead0: bool) -> bool:
    """
    pre: 0 <= a <= 99 and 0 <= b <= 99 and 0 <= n <= 99 and 0 <= s1 <= 3 and 0 <= s2 <= 3
    post: _
    """
    return _chk("beta", a, b, n, s1, s2, v, lead0)
def beta_dash(a: int, b: int, n: int) -> bool:
    """
    pre: 0 <= a <= 99 and 0 <= b <= 99 and 0 <= n <= 99
    post: _
    """
    return _chk("beta", a, b, n, 1, 0, True, False)
