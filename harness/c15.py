"""C15 — {pep440_version} always denotes the same version as {version}.

Real code: v2patterns._convert_to_pep440, normalize_pattern, compile_pattern, v2version.format_version, version.to_pep440,
setuptools_v65_version.Version.
Symbolic: every part value of the pattern, the tag, the tag number.
"""
import vp.chpatch  # noqa
import json
import os

from bumpver import v2version, v2patterns, version
from bumpver import setuptools_v65_version as sv
from vp import refmodel as rm
from vp import grammar

P = json.loads(os.environ.get("VP_PARAMS", "{}"))
PAT = P.get("pattern", "vYYYY.0M.PATCH[-TAG[NUM]]")
BID_ZEROS = P.get("bid_zeros", 0)
G = grammar.info(PAT)
AST, FIELDS, PARTS = G["ast"], G["fields"], G["parts"]
FS = set(FIELDS)
TAGS = rm.TAGS
CALF = [f for f in rm.CAL_FIELDS if f in FS]
Q = v2patterns.normalize_pattern(PAT, "{pep440_version}")           # real conversion, concrete per pattern
QRE = v2patterns.compile_pattern(PAT, "{pep440_version}").regexp     # the derived search pattern


def state(vals, tag_i):
    st = {f: None for f in rm.CAL_FIELDS}
    for f in CALF:
        st[f] = vals[f]
    if "month" in FS and "quarter" not in FS:
        st["quarter"] = (vals["month"] - 1) // 3 + 1
    tag = TAGS[tag_i]
    bid = "1000"
    if "bid" in FS:
        bid = "0" * BID_ZEROS + str(vals["bid"])
    st.update(major=vals.get("major", 0), minor=vals.get("minor", 0), patch=vals.get("patch", 0), num=vals.get("num", 0),
              inc0=vals.get("inc0", 0), inc1=vals.get("inc1", 1), bid=bid, tag=tag, pytag=rm.PYTAG[tag], githash="", hexhash="")
    return st


def ok_state(vals, tag_i) -> bool:
    st = state(vals, tag_i)
    # week 53 under WW/0W/UU/0U is C02's known finding (the part recogniser stops at 52); not re-reported here
    if ("week_w" in FS and vals["week_w"] == 53) or ("week_u" in FS and vals["week_u"] == 53):
        return False
    if rm.omitted(AST, st):
        return False
    if "pytag" in FS and "num" in FS and st["tag"] == "final" and st["num"] != 0:
        return False
    return True


def _no_leading_zero_after_first(text) -> bool:
    """every dot separated numeric component after the first is written without leading zeros"""
    n = len(text)
    for i in range(1, n - 1):
        if text[i - 1] == "." and text[i] == "0" and "0" <= text[i + 1] <= "9":
            return False
    return True


def pep440_same(vals, tag_i) -> bool:
    st = state(vals, tag_i)
    vinfo = version.V2VersionInfo(**st)
    text = v2version.format_version(vinfo, PAT)
    try:
        v = sv.Version(text)
    except sv.InvalidVersion:
        return True          # the property speaks about versions that are themselves PEP 440 versions
    qtext = v2version.format_version(vinfo, Q)
    w = sv.Version(qtext)    # InvalidVersion here is a violation
    # equal as PEP 440 versions: same epoch, same release numbers up to insignificant trailing zeros ('1.10.dev0' for 'v1.10.0-dev':
    # an optional part that is zero may be left out once the tag has moved to [PYTAGNUM]), same pre / post / dev segment and number
    a, b = v._version, w._version
    if (a.epoch, a.pre, a.post, a.dev, a.local) != (b.epoch, b.pre, b.post, b.dev, b.local):
        return False
    if w._key != v._key:     # the key holds the release numbers with trailing zeros stripped
        return False
    m = QRE.match(qtext)
    if m is None or len(m.group()) != len(qtext):
        return False         # accepted in full by the derived search pattern
    if qtext[:1] in ("v", "V"):
        return False
    if not _no_leading_zero_after_first(qtext):
        return False
    for long_form in ("alpha", "beta", "final", "preview"):
        if long_form in qtext:
            return False
    return True


def tables_consistent(i: int) -> bool:
    """tag tables: long -> short -> long is the identity on the six tags bumpver writes
    pre: 0 <= i < len(TAGS)
    post: _
    """
    t = TAGS[i]
    short = version.PEP440_TAG_BY_TAG[t]
    return version.TAG_BY_PEP440_TAG[short] == t and short == rm.PYTAG[t]


def twin_never_pep440(major: int) -> bool:
    """reachability twin (must be refuted): some rendering is a PEP 440 version
    pre: 0 <= major <= 9
    post: _
    """
    try:
        sv.Version(v2version.format_version(v2version.parse_field_values_to_vinfo({'major': "1"})._replace(major=major), "vMAJOR.MINOR"))
    except sv.InvalidVersion:
        return True
    return False
