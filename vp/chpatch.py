"""Local repairs of CrossHair 0.0.110 models (DESIGN §2.1). Imported first by every harness.

Importable in plain CPython too (replays): every patch touches only CrossHair's own
modules and is inert when no symbolic value is around.
"""
import logging
import re as _re

logging.disable(logging.CRITICAL)

from crosshair import core as _core
from crosshair.libimpl import builtinslib as _bl
from crosshair.libimpl import relib
from crosshair.tracers import NoTracing as _NoTracing

PATCHES = []


# --- patch 1: _Match.groupdict returned (start, end) tuples and dropped unmatched groups
def _groupdict(self, default=None):
    ret = {}
    for name, idx in self.re.groupindex.items():
        if self._groups[idx] is None:
            ret[name] = default
        else:
            ret[name] = self.group(idx)
    return ret


relib._Match.groupdict = _groupdict
PATCHES.append("relib._Match.groupdict")


# --- patch 2: unicode_ignorecase_mask compiled chr(cp) unescaped
def _uim(cp):
    mask = relib._UNICODE_IGNORECASE_MASKS.get(cp)
    if mask is None:
        chars = relib.caseable_chars()
        matches = _re.compile(_re.escape(chr(cp)), _re.IGNORECASE).findall(chars)
        mask = relib.CharMask([ord(c) for c in matches])
        relib._UNICODE_IGNORECASE_MASKS[cp] = mask
    return mask


relib.unicode_ignorecase_mask = _uim
PATCHES.append("relib.unicode_ignorecase_mask")

# --- patch 3: format(symbolic int, "" | "d" | "0N") stays symbolic
_orig_format = _core._PATCH_REGISTRATIONS.get(format)


def _sym_format(obj, format_spec=""):
    with _NoTracing():
        is_symint = isinstance(obj, _bl.SymbolicInt)
        spec = format_spec if isinstance(format_spec, str) else None
        own_format = getattr(type(obj), "__vp_no_realize__", False)
    if own_format:
        # harness stand-in objects carry symbolic state; CrossHair's format() would deep-realize them
        return type(obj).__format__(obj, format_spec)
    if is_symint and spec is not None:
        if spec in ("", "d"):
            return str(obj)
        if len(spec) >= 2 and spec[0] == "0" and spec[1:].isdigit() and 2 <= int(spec[1:]) <= 12:
            width = int(spec[1:])
            if obj >= 0:
                s = str(obj)
                for k in range(1, width):
                    if obj < 10 ** k:
                        return "0" * (width - k) + s
                return s
    return _orig_format(obj, format_spec)


if _orig_format is not None:
    _core._PATCH_REGISTRATIONS[format] = _sym_format
    PATCHES.append("format(symbolic int)")

# --- patch 4: backtracking into the body of a mandatory repeat
_orig_imp = relib._internal_match_patterns


def _imp(top_patterns, flags, string, offset, allow_empty=True, ord=ord, chr=chr):
    if len(top_patterns) > 0:
        pattern = top_patterns[0]
        if relib.single_char_mask(pattern, flags, ord=ord, chr=chr) is None:
            op, arg = pattern
            if op in (relib.MIN_REPEAT, relib.MAX_REPEAT):
                min_repeat, max_repeat, subpattern = arg
                if min_repeat >= 1 and max_repeat >= min_repeat:
                    rest_max = max_repeat if max_repeat == relib.MAXREPEAT else max_repeat - 1
                    new_top = (
                        list(subpattern)
                        + [(op, (min_repeat - 1, rest_max, subpattern))]
                        + list(top_patterns)[1:]
                    )
                    lo, _hi = subpattern.getwidth()
                    if lo >= 1:
                        return relib._internal_match_patterns(
                            new_top, flags, string, offset, allow_empty, ord=ord, chr=chr
                        )
    return _orig_imp(top_patterns, flags, string, offset, allow_empty, ord=ord, chr=chr)


relib._internal_match_patterns = _imp
PATCHES.append("relib repeat backtracking")

# --- patch 5: equality of two symbolic strings with different code-point containers
_orig_eq = _bl.LazyIntSymbolicStr.__eq__


def _lazy_eq(self, other):
    with _NoTracing():
        both = isinstance(other, _bl.LazyIntSymbolicStr)
    if both:
        if len(self) != len(other):
            return False
        n = len(self)
        a, b = self._codepoints, other._codepoints
        for i in range(n):
            if a[i] != b[i]:
                return False
        return True
    return _orig_eq(self, other)


_bl.LazyIntSymbolicStr.__eq__ = _lazy_eq
PATCHES.append("LazyIntSymbolicStr.__eq__")


class Echo:
    """Recorder for click.echo: keeps the arguments (the observable output lines)."""

    def __init__(self):
        self.lines = []

    def __call__(self, message=None, *a, **k):
        self.lines.append(message)
