"""Stub regular expression (DESIGN §2.6): the *span geometry* is supplied by the harness, the code under
test (parse.iter_matches, rewrite_lines, rfd_from_content, rewrite_files, diff) is real."""


class FakeMatch:
    def __init__(self, line, l, r):
        self._line, self._l, self._r = line, l, r

    def span(self, g=0):
        return (self._l, self._r)

    def group(self, g=0):
        return self._line[self._l:self._r]

    def start(self, g=0):
        return self._l

    def end(self, g=0):
        return self._r


class FakeRe:
    """search(line) answers from a table keyed by call order (= line number: parse._iter_for_pattern visits lines in order)."""

    pattern = "fake"

    def __init__(self, spans):
        # spans: list (per line) of None | (l, r)
        self.spans = spans
        self.calls = 0

    def search(self, line):
        i = self.calls
        self.calls += 1
        sp = self.spans[i] if i < len(self.spans) else None
        if sp is None:
            return None
        return FakeMatch(line, sp[0], sp[1])


class ByTextRe:
    """matches a fixed needle text when `enabled` (used where file content is concrete and only match/no-match is symbolic)"""

    pattern = "fake"

    def __init__(self, needle, enabled):
        self.needle, self.enabled = needle, enabled

    # bumpver memoises compile_pattern: the same raw pattern configured for two files is the SAME (equal) Pattern object, although
    # it matches in one file and not in the other. Equality by text keeps that: per-file match/no-match stays in `enabled`.
    def __eq__(self, other):
        return isinstance(other, ByTextRe) and other.needle == self.needle

    def __hash__(self):
        return hash(self.needle)

    def search(self, line):
        if not self.enabled:
            return None
        i = line.find(self.needle)
        if i < 0:
            return None
        return FakeMatch(line, i, i + len(self.needle))
