import chfix, logging; logging.disable(logging.CRITICAL)
import typing as typ, io
from bumpver import rewrite, v2rewrite, v2version, v2patterns

VP = "MAJOR.MINOR.PATCH"
NEW = v2version.parse_version_info("1.2.4", VP)
PATS = v2patterns.compile_patterns(VP, ["v {version}"])

class MemFS:
    def __init__(self, files): self.files = dict(files); self.writes = []
class FakeFile(io.StringIO):
    def __init__(self, fs, path, mode):
        super().__init__(fs.files[path] if "r" in mode else "")
        self.fs, self.path, self.mode = fs, path, mode
    def close(self):
        if "w" in self.mode:
            self.fs.files[self.path] = self.getvalue(); self.fs.writes.append(self.path)
        super().close()
def mk_path(fs):
    class FakePath:
        def __init__(self, p): self.p = str(p)
        def exists(self): return self.p in fs.files
        def open(self, mode="rt", newline=None, encoding=None): return FakeFile(fs, self.p, mode)
        def __str__(self): return self.p
        def __lt__(self, o): return self.p < o.p
    return FakePath

def atomic(ok_a: bool, ok_b: bool, ok_c: bool, ex_b: bool) -> bool:
    """
    pre: True
    post: _
    """
    files = {"a.txt": "v 1.2.3\n" if ok_a else "nope\n", "c.txt": "x\nv 1.2.3" if ok_c else ""}
    if ex_b:
        files["b.txt"] = "v 1.2.3\r\nq" if ok_b else "v1.2.3"
    fs = MemFS(files)
    before = dict(fs.files)
    orig_path, orig_open = rewrite.pl.Path, v2rewrite.io.open
    rewrite.pl.Path = mk_path(fs)
    v2rewrite.io.open = lambda path, mode="r", newline=None, encoding=None: FakeFile(fs, path, mode)
    failed = False
    try:
        v2rewrite.rewrite_files({"a.txt": PATS, "b.txt": PATS, "c.txt": PATS}, NEW)
    except Exception:
        failed = True
    finally:
        rewrite.pl.Path, v2rewrite.io.open = orig_path, orig_open
    if failed:
        return fs.files == before
    return sorted(fs.writes) == ["a.txt", "b.txt", "c.txt"]
