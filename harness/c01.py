"""C01 — a successful bump yields a valid, strictly greater version.

L1 gate      : real cli._is_valid_version on renderings of two symbolic states of one pattern (greater / equal / lower /
               PEP 440-equal spellings), malformed targets, uniqueness against the tag list
L2 test cmd  : real cli.test control skeleton, incr_dispatch and the gate recorded
L3 update cmd: harness/c10.py update_skeleton (writer called iff candidate and gate and not dry; gate arguments)
L4 end to end: real cli.test on real strings for calendar-free patterns (thorough)
"""
import vp.chpatch  # noqa
import json
import os
import typing as typ

import click

from bumpver import cli, config, vcs, version, v2version
from vp import refmodel as rm
from vp import grammar
from vp import pep440ref as ref

P = json.loads(os.environ.get("VP_PARAMS", "{}"))
PAT = P.get("pattern", "MAJOR.MINOR[.PATCH]")
G = grammar.info(PAT)
AST, FIELDS, PARTS = G["ast"], G["fields"], G["parts"]
FS = set(FIELDS)
TAGS = rm.TAGS
NUMERIC = [f for f in FIELDS if f not in ("tag", "pytag", "num")]
SUFFIXES = ["x", "-", " ", ".", "+", "a"]


def state(vals, tag_i):
    st = {f: None for f in rm.CAL_FIELDS}
    for f in rm.CAL_FIELDS:
        if f in FS:
            st[f] = vals[f]
    if "month" in FS and "quarter" not in FS:
        st["quarter"] = (vals["month"] - 1) // 3 + 1
    tag = TAGS[tag_i]
    st.update(major=vals.get("major", 0), minor=vals.get("minor", 0), patch=vals.get("patch", 0), num=vals.get("num", 0),
              inc0=vals.get("inc0", 0), inc1=vals.get("inc1", 1), bid=str(vals["bid"]) if "bid" in FS else "1000",
              tag=tag, pytag=rm.PYTAG[tag], githash="", hexhash="")
    return st


def ref_key(st):
    """PEP 440 key of the rendering of `st` (patterns whose numeric parts are dot separated): release = the numeric parts in
    pattern order (omitted parts are zero, and trailing zeros are insignificant), segment from tag and number"""
    release = [int(st[f]) if f == "bid" else st[f] for f in NUMERIC]
    pre, post, dev = ref.from_tag(st["tag"], st["num"] if "num" in FS else 0)
    return ref.key(0, release, pre, post, dev)


def ok_state(vals, tag_i) -> bool:
    st = state(vals, tag_i)
    if rm.omitted(AST, st):
        return False
    if ("pytag" in FS or "tag" in FS) and "num" in FS and st["tag"] == "final" and st["num"] != 0:
        # (final, NUM > 0): no bump produces it (C05 final_tag_has_no_num) and as a --set-version target it is refused
        # (concrete table in vp/props/c01.py validations). With TAG it is written '-final8', which is not PEP 440 text: the reference order is undefined there
        return False
    return True


def gate(old_vals, old_tag, new_vals, new_tag) -> bool:
    so, sn = state(old_vals, old_tag), state(new_vals, new_tag)
    old = v2version.format_version(version.V2VersionInfo(**so), PAT)
    new = v2version.format_version(version.V2VersionInfo(**sn), PAT)
    got = cli._is_valid_version(PAT, old, new)
    return got == (ref_key(sn) > ref_key(so))


def gate_alt_spelling(old_vals, new_vals, kind) -> bool:
    """--set-version targets that are valid for the pattern but spelled differently from the canonical rendering
    (1.2.0 for 1.2 under MAJOR.MINOR[.PATCH]; 1.02 for 1.2): accepted iff strictly greater under PEP 440 — an equal version in
    another spelling is refused"""
    so, sn = state(old_vals, 0), state(new_vals, 0)
    old = v2version.format_version(version.V2VersionInfo(**so), PAT)
    if kind == 2:
        new = str(sn["major"]) + "." + str(sn["minor"]) + "." + str(sn["patch"]) + ""     # every optional part written: 1 -> 1.0.0
    elif kind == 0:
        new = str(sn["major"]) + "." + str(sn["minor"]) + "." + str(sn["patch"])          # PATCH written even when 0
    else:
        new = str(sn["major"]) + ".0" + str(sn["minor"]) + ("." + str(sn["patch"]) if sn["patch"] != 0 else "")   # leading zero
    got = cli._is_valid_version(PAT, old, new)
    return got == (ref_key(sn) > ref_key(so))


def gate_malformed(old_vals, new_vals, k) -> bool:
    """a target that does not match the pattern in full is refused, whatever its order"""
    so, sn = state(old_vals, 0), state(new_vals, 0)
    old = v2version.format_version(version.V2VersionInfo(**so), PAT)
    new = v2version.format_version(version.V2VersionInfo(**sn), PAT) + SUFFIXES[k]
    return cli._is_valid_version(PAT, old, new) is False


def gate_unique(old_vals, new_vals, t1_vals, same1: bool, junk: bool) -> bool:
    """unique=True: a version that already exists as a tag (on any branch) is refused; tags that do not match never matter"""
    so, sn, s1 = state(old_vals, 0), state(new_vals, 0), state(t1_vals, 0)
    old = v2version.format_version(version.V2VersionInfo(**so), PAT)
    new = v2version.format_version(version.V2VersionInfo(**sn), PAT)
    tag1 = new if same1 else v2version.format_version(version.V2VersionInfo(**s1), PAT)
    tags = [tag1] + (["release-" + "x"] if junk else [])
    calls = []

    def get_tags(fetch, scope):
        calls.append((fetch, scope))
        return list(tags)

    saved = vcs.get_tags
    vcs.get_tags = get_tags
    try:
        got = cli._is_valid_version(PAT, old, new, unique=True)
    finally:
        vcs.get_tags = saved
    greater = ref_key(sn) > ref_key(so)
    if not greater:
        return got is False
    dup = same1 or rm.same_visible_state(AST, sn, s1)
    if calls != [(False, config.TagScope.GLOBAL)]:
        return False
    return got == (not dup)


# ---------------------------------------------------------------------------------------------------------------------

PATTERNS = ["MAJOR.MINOR.PATCH", "YYYY.BUILD[-TAG]", "YYYY.MM"]


def test_skeleton(major: bool, minor: bool, patch: bool, tag_i: int, tag_num: bool, pin_increments: bool, pin_date: bool,
                  has_date: bool, bad_date: bool, has_set_version: bool, has_candidate: bool, gate_ok: bool, pat_i: int) -> bool:
    """bumpver test: returns normally (exit 0) iff a candidate exists and the gate accepted exactly (pattern, old, candidate);
    then 'New Version: <candidate>' is printed once; everything else is a non-zero exit without that line
    pre: 0 <= tag_i <= 7 and 0 <= pat_i < len(PATTERNS)
    post: _
    """
    tag = ([None] + list(cli.VALID_RELEASE_TAG_VALUES) + ["gamma"])[tag_i]
    pattern = PATTERNS[pat_i]
    old = "1.2.3"
    date = None
    if has_date:
        date = "2020-13-45" if bad_date else "2020-10-15"
    log: typ.List[tuple] = []
    echo: typ.List[str] = []

    def incr_dispatch(old_version, **kw):
        log.append(("incr", old_version, kw["raw_pattern"], kw["major"], kw["minor"], kw["patch"], kw["tag"], kw["tag_num"],
                    kw["pin_increments"], kw["pin_date"], kw["maybe_date"]))
        return "1.3.0" if has_candidate else None

    def is_valid_version(raw_pattern, old_version, new_version, unique=False):
        log.append(("gate", raw_pattern, old_version, new_version, unique))
        return gate_ok

    saved = (cli.incr_dispatch, cli._is_valid_version, cli._configure_logging, click.echo)
    cli.incr_dispatch, cli._is_valid_version = incr_dispatch, is_valid_version
    cli._configure_logging = lambda verbose=0: None
    click.echo = lambda message=None, *a, **k: echo.append(message)
    code = None
    try:
        try:
            cli.test.callback(old_version=old, pattern=pattern, verbose=0, major=major, minor=minor, patch=patch, tag=tag,
                              tag_num=tag_num, pin_increments=pin_increments, pin_date=pin_date, date=date,
                              set_version="1.4.0" if has_set_version else None)
        except SystemExit as ex:
            code = ex.code if isinstance(ex.code, int) else 1
    finally:
        cli.incr_dispatch, cli._is_valid_version, cli._configure_logging, click.echo = saved
    announced = [m for m in echo if isinstance(m, str) and m.startswith("New Version:")]
    bad_tag = tag == "gamma"
    parts = rm.parts_in_order(rm.parse_pattern(pattern))
    bad_flags = (major and "MAJOR" not in parts) or (minor and "MINOR" not in parts) or (patch and "PATCH" not in parts)
    date_conflict = has_date and pin_date
    early = bad_tag or bad_flags or date_conflict or (has_date and bad_date)
    if early:
        return code not in (None, 0) and log == [] and announced == []
    import datetime as dt
    maybe_date = dt.date(2020, 10, 15) if has_date else None
    want: typ.List[tuple] = []
    if has_set_version:
        candidate: typ.Optional[str] = "1.4.0"
    else:
        want.append(("incr", old, pattern, major, minor, patch, tag, tag_num, pin_increments, pin_date, maybe_date))
        candidate = "1.3.0" if has_candidate else None
    if candidate is None:
        return code not in (None, 0) and log == want and announced == []
    want.append(("gate", pattern, old, candidate, False))
    if not gate_ok:
        return code not in (None, 0) and log == want and announced == []
    return code is None and log == want and announced == ["New Version: " + candidate]


def twin_test_never_announces(gate_ok: bool) -> bool:
    """reachability twin (must be refuted)
    post: _
    """
    echo = []
    saved = (cli.incr_dispatch, cli._is_valid_version, cli._configure_logging, click.echo)
    cli.incr_dispatch = lambda old, **kw: "1.3.0"
    cli._is_valid_version = lambda *a, **k: gate_ok
    cli._configure_logging = lambda verbose=0: None
    click.echo = lambda message=None, *a, **k: echo.append(message)
    try:
        try:
            cli.test.callback(old_version="1.2.3", pattern="MAJOR.MINOR.PATCH", minor=True)
        except SystemExit:
            pass
    finally:
        cli.incr_dispatch, cli._is_valid_version, cli._configure_logging, click.echo = saved
    return echo == []


# ---------------------------------------------------------------------------------------------------------------------

def test_end_to_end(old_vals, tag_i, f_major, f_minor, f_patch, newtag_i, f_tagnum) -> bool:
    """real cli.test on real strings (calendar-free patterns): exit 0 => announced version matches the pattern in full and is
    greater than the old one under the reference order; otherwise nothing is announced"""
    so = state(old_vals, tag_i)
    old = v2version.format_version(version.V2VersionInfo(**so), PAT)
    echo: typ.List[str] = []
    saved = (cli._configure_logging, click.echo)
    cli._configure_logging = lambda verbose=0: None
    click.echo = lambda message=None, *a, **k: echo.append(message)
    code = None
    try:
        try:
            cli.test.callback(old_version=old, pattern=PAT, major=f_major, minor=f_minor, patch=f_patch,
                              tag=([None] + TAGS)[newtag_i], tag_num=f_tagnum)
        except SystemExit as ex:
            code = ex.code if isinstance(ex.code, int) else 1
    finally:
        cli._configure_logging, click.echo = saved
    announced = [m for m in echo if isinstance(m, str) and m.startswith("New Version: ")]
    if code is not None:
        return code != 0 and announced == []
    if len(announced) != 1:
        return False
    new = announced[0][len("New Version: "):]
    got = v2version.parse_version_info(new, PAT)   # raises PatternError (= harness returns via exception) if not a full match
    sn = dict(so)
    for f in FIELDS:
        sn[f] = getattr(got, f)
    sn["tag"], sn["pytag"], sn["num"] = got.tag, got.pytag, got.num
    return ref_key(sn) > ref_key(so)
