"""Integer-only calendar model v2: lazy fields, FieldStr for strftime."""
import builtins
CUM = (0, 31, 59, 90, 120, 151, 181, 212, 243, 273, 304, 334, 365)

def is_leap(y):
    return (y % 4 == 0) and ((y % 100 != 0) or (y % 400 == 0))
def days_before_year(y):
    y1 = y - 1
    return y1 * 365 + y1 // 4 - y1 // 100 + y1 // 400
def days_in_year(y):
    return 366 if is_leap(y) else 365
def month_dom_from_doy(y, j):
    leap = 1 if is_leap(y) else 0
    if j <= 31:
        return 1, j
    if j <= 59 + leap:
        return 2, j - 31
    for m in range(3, 13):
        if j <= CUM[m] + leap:
            return m, j - (CUM[m - 1] + leap)
    raise ValueError("doy out of range")
def doy_from_md(y, m, d):
    leap = 1 if (is_leap(y) and m > 2) else 0
    return CUM[m - 1] + leap + d
def p(y):
    return (y + y // 4 - y // 100 + y // 400) % 7
def iso_weeks_in_year(y):
    return 53 if (p(y) == 4 or p(y - 1) == 3) else 52

class FieldStr(str):
    """What the stub strftime returns: text is irrelevant, int(...) yields .value"""
    def __new__(cls, value):
        self = str.__new__(cls, "<sym>")
        self.value = value
        return self

def smart_int(x=0, *a, **kw):
    if type(x) is FieldStr:
        return x.value
    return builtins.int(x, *a, **kw)

class SymDate:
    def __init__(self, year, month=None, day=None, doy=None):
        self.year = year
        self._m, self._d, self._j = month, day, doy
    @property
    def doy(self):
        if self._j is None:
            self._j = doy_from_md(self.year, self._m, self._d)
        return self._j
    @property
    def month(self):
        if self._m is None:
            self._m, self._d = month_dom_from_doy(self.year, self._j)
        return self._m
    @property
    def day(self):
        if self._d is None:
            self._m, self._d = month_dom_from_doy(self.year, self._j)
        return self._d
    def weekday(self):
        return (days_before_year(self.year) + self.doy + 6) % 7
    def field(self, key):
        if key == "Y": return self.year
        if key == "m": return self.month
        if key == "d": return self.day
        if key == "j": return self.doy
        wd_mon = self.weekday()
        if key == "W": return (self.doy + 6 - wd_mon) // 7
        if key == "U": return (self.doy + 6 - (wd_mon + 1) % 7) // 7
        wk = (self.doy - wd_mon + 9) // 7
        gy = self.year
        if wk < 1:
            gy = self.year - 1
            wk = iso_weeks_in_year(gy)
        elif wk > iso_weeks_in_year(self.year):
            gy = self.year + 1
            wk = 1
        return gy if key == "G" else wk
    def strftime(self, fmt):
        return FieldStr(self.field(fmt[1]))

class SymTimedelta:
    def __init__(self, days=0):
        self.days = days

def _add(self, td):
    j = self.doy + td.days
    # only used for date_from_doy: Jan 1 + (doy-1); must stay within the year
    if not (1 <= j <= days_in_year(self.year)):
        raise OverflowError("stub: addition leaves the year")
    return SymDate(self.year, doy=j)
SymDate.__add__ = _add

import types
def dt_stub():
    def date(y, m, d):
        if not (1 <= m <= 12):
            raise ValueError("month must be in 1..12")
        dim = (31, 29 if is_leap(y) else 28, 31, 30, 31, 30, 31, 31, 30, 31, 30, 31)
        if not (1 <= d <= dim[m - 1]):
            raise ValueError("day is out of range for month")
        return SymDate(y, m, d)
    return types.SimpleNamespace(date=date, timedelta=SymTimedelta)
