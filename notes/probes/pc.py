import chfix, logging; logging.disable(logging.CRITICAL)
import typing as typ
import subprocess as sp
from bumpver import vcs

def argv_commit(msg: str) -> typ.List[str]:
    """
    pre: len(msg) <= 3
    post: _ == ["git", "commit", "--message", msg]
    """
    captured: typ.List[typ.List[str]] = []
    orig = sp.check_output
    def fake(cmd_parts, env=None, stderr=None):
        captured.append(list(cmd_parts))
        return b""
    vcs.sp.check_output = fake
    try:
        vcs.VCSAPI("git")("commit", message=msg)
    finally:
        vcs.sp.check_output = orig
    return captured[0]
