import chfix, logging; logging.disable(logging.CRITICAL)
import typing as typ
from bumpver import cli, v2version

PAT = "MAJOR.MINOR[.PATCH]"
BASE = v2version.parse_field_values_to_vinfo({'major': "0"})

def render(ma, mi, pa, explicit_zero):
    s = v2version.format_version(BASE._replace(major=ma, minor=mi, patch=pa), PAT)
    if explicit_zero and pa == 0:
        s = s + ".0"            # PEP 440-equal, textually different spelling, still matches the pattern
    return s

def gate(a0: int, a1: int, a2: int, b0: int, b1: int, b2: int, z1: bool, z2: bool) -> bool:
    """
    pre: 0 <= a0 <= 99 and 0 <= a1 <= 99 and 0 <= a2 <= 99 and 0 <= b0 <= 99 and 0 <= b1 <= 99 and 0 <= b2 <= 99
    pre: a0 + a1 + a2 > 0 and b0 + b1 + b2 > 0
    post: _ == ((b0, b1, b2) > (a0, a1, a2))
    """
    old = render(a0, a1, a2, z1)
    new = render(b0, b1, b2, z2)
    return cli._is_valid_version(PAT, old, new)

def gate_1digit(a0: int, a1: int, a2: int, b0: int, b1: int, b2: int, z1: bool, z2: bool) -> bool:
    """
    pre: 0 <= a0 <= 9 and 0 <= a1 <= 9 and 0 <= a2 <= 9 and 0 <= b0 <= 9 and 0 <= b1 <= 9 and 0 <= b2 <= 9
    pre: a0 + a1 + a2 > 0 and b0 + b1 + b2 > 0
    post: _ == ((b0, b1, b2) > (a0, a1, a2))
    """
    return cli._is_valid_version(PAT, render(a0, a1, a2, z1), render(b0, b1, b2, z2))

def gate_mixed(a0: int, a1: int, a2: int, b0: int, b1: int, b2: int, z1: bool, z2: bool) -> bool:
    """
    pre: 10 <= a0 <= 99 and 0 <= a1 <= 9 and 100 <= a2 <= 999 and 10 <= b0 <= 99 and 0 <= b1 <= 9 and 0 <= b2 <= 9
    post: _ == ((b0, b1, b2) > (a0, a1, a2))
    """
    return cli._is_valid_version(PAT, render(a0, a1, a2, z1), render(b0, b1, b2, z2))
