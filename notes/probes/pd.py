import chfix, logging; logging.disable(logging.CRITICAL)
import typing as typ
from bumpver import v2rewrite, v2version, parse
from bumpver.patterns import Pattern

NEW = v2version.parse_version_info("2.7", "MAJOR.MINOR")

class FakeMatch:
    def __init__(self, line, l, r): self.line, self.l, self.r = line, l, r
    def group(self, i=0): return self.line[self.l:self.r]
    def span(self): return (self.l, self.r)

class FakeRe:
    pattern = "<fake>"
    def __init__(self, spans): self.spans = spans   # per line: None or (l, r)
        
    def search(self, line):
        sp = self.spans.get(id(line)) if False else None
        return None

class FakeRe2:
    pattern = "<fake>"
    def __init__(self, lineno_spans, lines):
        self.ls = lineno_spans; self.lines = lines
    def search(self, line):
        for i, ln in enumerate(self.lines):
            if ln is line:
                sp = self.ls[i]
                if sp is None: return None
                return FakeMatch(line, sp[0], sp[1])
        return None

def two_on_one_line(line: str, l1: int, r1: int, l2: int, r2: int) -> str:
    """
    pre: len(line) <= 6 and 0 <= l1 < r1 < l2 < r2 <= len(line)
    post: _ == line[:l1] + "2.7" + line[r1:l2] + "7" + line[r2:]
    """
    lines = [line]
    p1 = Pattern("MAJOR.MINOR", "MAJOR.MINOR", FakeRe2([(l1, r1)], lines))
    p2 = Pattern("MAJOR.MINOR", "MINOR", FakeRe2([(l2, r2)], lines))
    return v2rewrite.rewrite_lines([p1, p2], NEW, lines)[0]

def one(line: str, l1: int, r1: int) -> str:
    """
    pre: len(line) <= 6 and 0 <= l1 < r1 <= len(line)
    post: _ == line[:l1] + "2.7" + line[r1:]
    """
    lines = [line]
    p1 = Pattern("MAJOR.MINOR", "MAJOR.MINOR", FakeRe2([(l1, r1)], lines))
    return v2rewrite.rewrite_lines([p1], NEW, lines)[0]
