import chfix, logging; logging.disable(logging.CRITICAL)
import typing as typ
from bumpver import v2version, version

PAT = "MAJOR.MINOR.PATCH[PYTAGNUM]"
TAGS = ["final", "alpha", "beta", "rc", "dev", "post"]
PY = {"final": "", "alpha": "a", "beta": "b", "rc": "rc", "dev": "dev", "post": "post"}
BASE = v2version.parse_field_values_to_vinfo({'major': "0"})

def model(ma, mi, pa, tag, num, f_ma, f_mi, f_pa, new_tag, f_num):
    """README rules, pattern MAJOR.MINOR.PATCH[PYTAGNUM]; returns new state or None."""
    if f_num and new_tag is None and tag == "final":
        return None
    n_ma, n_mi, n_pa, n_tag, n_num = ma + (1 if f_ma else 0), mi + (1 if f_mi else 0), pa + (1 if f_pa else 0), tag, num + (1 if f_num else 0)
    if new_tag is not None:
        if new_tag != tag:
            n_num = 0
        n_tag = new_tag
    changed = False
    if n_ma != ma: changed = True
    if changed: n_mi = 0
    elif n_mi != mi: changed = True
    prev = changed
    if prev and n_mi == 0 and mi != 0 or prev: pass
    # reset right of first change
    c = n_ma != ma
    if c: n_mi = 0
    c2 = c or (n_mi != mi)
    if c2: n_pa = 0
    c3 = c2 or (n_pa != pa)
    c4 = c3 or (n_tag != tag)
    if c4: n_num = 0
    new = (n_ma, n_mi, n_pa, n_tag, n_num)
    if new == (ma, mi, pa, tag, num):
        return None
    if new == (0, 0, 0, "final", 0):
        return None
    return new

def bump(ma: int, mi: int, pa: int, tag_i: int, num: int, f_ma: bool, f_mi: bool, f_pa: bool, new_tag_i: int, f_num: bool) -> bool:
    """
    pre: 0 <= ma <= 99 and 0 <= mi <= 99 and 0 <= pa <= 99 and 0 <= num <= 99 and 0 <= tag_i <= 5 and -1 <= new_tag_i <= 5
    pre: ma + mi + pa + num + tag_i > 0
    pre: tag_i != 0 or num == 0
    post: _
    """
    tag = TAGS[tag_i]; new_tag = None if new_tag_i < 0 else TAGS[new_tag_i]
    old = BASE._replace(major=ma, minor=mi, patch=pa, tag=tag, pytag=PY[tag], num=num)
    old_s = v2version.format_version(old, PAT)
    out = v2version.incr(old_s, PAT, major=f_ma, minor=f_mi, patch=f_pa, tag=new_tag, tag_num=f_num)
    exp = model(ma, mi, pa, tag, num, f_ma, f_mi, f_pa, new_tag, f_num)
    if out is None or exp is None:
        return out is None and exp is None
    w = v2version.parse_version_info(out, PAT)
    return (w.major, w.minor, w.patch, w.tag, w.num) == exp
