import chfix, logging; logging.disable(logging.CRITICAL)
import typing as typ
from bumpver import vcs

CODES = ["??", " M", "M ", "MM", "A ", "AM", " D", "D ", "R ", "RM", "AD"]

class FakeAPI(vcs.VCSAPI):
    def __init__(self, out):
        super().__init__("git")
        self.out = out
    def __call__(self, cmd_name, env=None, **kwargs):
        assert cmd_name == "status"
        return self.out

def dirty(code_i: int, is_pattern_file: bool, allow_dirty: bool) -> bool:
    """
    pre: 0 <= code_i < len(CODES)
    post: _ == ((not allow_dirty and (CODES[code_i] != "??" or is_pattern_file)) or is_pattern_file)
    """
    path = "f.txt" if is_pattern_file else "g.txt"
    out = CODES[code_i] + " " + path + "\n"
    try:
        vcs.assert_not_dirty(FakeAPI(out), {"f.txt"}, allow_dirty)
    except SystemExit:
        return True
    return False

def dirty_sym(x: str, y: str, is_pattern_file: bool, allow_dirty: bool) -> bool:
    """
    pre: len(x) == 1 and len(y) == 1 and x in " MADR?" and y in " MD?" and (x + y) != "  " and ((x == "?") == (y == "?"))
    post: _ == ((not allow_dirty and ((x + y) != "??" or is_pattern_file)) or is_pattern_file)
    """
    path = "f.txt" if is_pattern_file else "g.txt"
    out = x + y + " " + path + "\n"
    try:
        vcs.assert_not_dirty(FakeAPI(out), {"f.txt"}, allow_dirty)
    except SystemExit:
        return True
    return False
