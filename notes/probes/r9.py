import chfix, logging; logging.disable(logging.CRITICAL)
import typing as typ
from bumpver import v2version, version

BASE = v2version.parse_field_values_to_vinfo({'major': "0"})
def mono_yw(y1: int, w1: int, y2: int, w2: int) -> bool:
    """
    pre: 1000 <= y1 <= 9999 and 1000 <= y2 <= 9999 and 0 <= w1 <= 53 and 0 <= w2 <= 53 and (y1, w1) <= (y2, w2)
    post: _
    """
    a = v2version.format_version(BASE._replace(year_y=y1, week_w=w1), "vYYYY.WW")
    b = v2version.format_version(BASE._replace(year_y=y2, week_w=w2), "vYYYY.WW")
    return version.parse_version(a) <= version.parse_version(b)

def mono_y0m0d(y1: int, m1: int, d1: int, y2: int, m2: int, d2: int) -> bool:
    """
    pre: 1000 <= y1 <= 9999 and 1000 <= y2 <= 9999 and 1 <= m1 <= 12 and 1 <= m2 <= 12 and 1 <= d1 <= 31 and 1 <= d2 <= 31 and (y1, m1, d1) <= (y2, m2, d2)
    post: _
    """
    a = v2version.format_version(BASE._replace(year_y=y1, month=m1, dom=d1), "YYYY0M0D")
    b = v2version.format_version(BASE._replace(year_y=y2, month=m2, dom=d2), "YYYY0M0D")
    return version.parse_version(a) <= version.parse_version(b)

def mono_unpadded_glued(y1: int, m1: int, y2: int, m2: int) -> bool:
    """
    pre: 2001 <= y1 <= 2099 and 2001 <= y2 <= 2099 and 1 <= m1 <= 12 and 1 <= m2 <= 12 and (y1, m1) <= (y2, m2)
    post: _
    """
    a = v2version.format_version(BASE._replace(year_y=y1, month=m1), "YYYYMM")
    b = v2version.format_version(BASE._replace(year_y=y2, month=m2), "YYYYMM")
    return version.parse_version(a) <= version.parse_version(b)
