"""C09 obligations (DESIGN §4.9)."""
from vp.runner import Ob, finding_open
from vp import symcal
from vp.props import c10 as _c10, c01 as _c01

INFO = {
    "design_ref": "§4.9",
    "functions": ["cli._update_cfg_from_vcs", "cli.get_latest_vcs_version_tag", "cli._parse_version_tags", "v2version.is_valid",
                  "v1version.is_valid", "v2version.parse_version_info", "version.parse_version", "version.to_pep440", "vcs.get_tags",
                  "cli._is_valid_version(unique=True)"],
    "bounds": "selection: config version and two valid tags with symbolic numbers 0..30 (one of them optionally in the PEP 440-equal "
              "spelling a.b.0), both list orders, with/without four non-matching tags, three scopes, fetch on/off; filter totality: "
              "vYYYY.0M.0D tags for every (month, day) in 1..12 x 1..31 incl. impossible dates, years 2019..2024, junk suffixes; "
              "YYYY.JJJ with day 366; {pycalver} with months 0..19",
    "outside": "more than 2 matching tags (follows from list.sort with a total key, C16); what git tag --merged returns; years outside "
               "2019..2024 in the totality lemma (the failing/raising condition depends on the date arithmetic only, C02/C14 calendar lemmas)",
    "stubs": ["vcs.get_tags -> tag list built from symbolic numbers", "calendar stub vp.symcal (raises ValueError exactly where datetime.date does)"],
    "assumptions": [],
}
KEY_IMPOSSIBLE = "C09:tag whose text is a calendar-impossible date (v2021.02.30 with vYYYY.0M.0D)"


def validations(tier):
    return [("calendar stub vs datetime/strftime", lambda: symcal.validate(tier))]


def obligations(tier):
    obs = []
    t = 300 if tier == "quick" else 1200
    import itertools
    classes = [[0, 9]] if tier == "quick" else [[0, 9], [10, 30]]
    for order, scope, b0, b1, b2 in itertools.product((0, 1), (0, 1, 2), classes, classes, classes):
        subs = [{}] if scope != 0 else [{"junk": j, "explicit_zero": z} for j in (False, True) for z in (False, True)]
        if scope == 0 and tier == "quick":
            subs = [{"c0": 0, "c1": 0, "junk": False, "explicit_zero": False}, {"c0": 0, "junk": False, "explicit_zero": True}, {"c1": 0, "junk": True, "explicit_zero": False}]
        for sub in subs:
            obs.append(Ob(f"L2.select_tag[list order {order}, scope {scope}, minor classes {b0}/{b1}/{b2}, {sub}]", "c09.py", "select_tag",
                          {"order": order, "fix": dict({"scope": scope}, **sub), "b0": b0, "b1": b1, "b2": b2}, timeout=t))
    # legacy patterns go through the legacy reader (v1version.is_valid) in the tag filter
    for scope in (1, 2):
        obs.append(Ob(f"L2.select_tag[{{semver}}, scope {scope}]", "c09.py", "select_tag",
                      {"order": scope - 1, "legacy": True, "fix": {"scope": scope, "junk": scope == 1, "explicit_zero": False}}, timeout=t))
    if tier == "quick":
        # string order and numeric order differ only across a digit-length boundary (0.9 vs 0.10)
        obs.append(Ob("L2.select_tag[list order 0, scope 0, minor classes [0, 9]/[10, 30]/[0, 9], digit-length crossing]", "c09.py",
                      "select_tag", {"order": 0, "fix": {"scope": 0, "c0": 0, "c1": 0, "junk": False, "explicit_zero": False},
                                     "b0": [0, 9], "b1": [10, 30], "b2": [0, 9]}, timeout=t))
    obs.append(Ob("L2.junk_tag_symbolic", "c09.py", "junk_tag_symbolic", {}, timeout=t, bounds="tag text: any str of length <= 2"))
    obs.append(Ob("L2.no_matching_tag", "c09.py", "no_matching_tag", {}, timeout=t))
    is_open = finding_open(KEY_IMPOSSIBLE)
    obs.append(Ob("L1.is_valid_total[vYYYY.0M.0D]", "c09.py", "is_valid_total", {"exclude_impossible_dates": True} if is_open else {}, timeout=t))
    if is_open:
        obs.append(Ob("L1.is_valid_total[known: impossible date]", "c09.py", "is_valid_total", {"only_impossible_dates": True},
                      expect="known", finding=KEY_IMPOSSIBLE, timeout=t))
    obs.append(Ob("L1.is_valid_total[TAG / PYTAG spellings]", "c09.py", "is_valid_total_tag", {}, timeout=t,
                  bounds="every alternative of PART_PATTERNS TAG and PYTAG plus two non-spellings each; parts 0..99"))
    obs.append(Ob("L1.is_valid_total[YYYY.JJJ]", "c09.py", "is_valid_total_doy", {}, timeout=t))
    obs.append(Ob("L1.is_valid_total[{pycalver}]", "c09.py", "is_valid_total_v1", {}, timeout=t))
    # L3a: the scope given on the command line is the one used, independent of commit/tag/push
    obs += [o for o in _c10.obligations(tier) if o.name.startswith("L1.parse_vcs_options")]
    # L3 scope -> listing command, fetch only when asked (shared with C10); L4 uniqueness (shared with C01)
    obs += [o for o in _c10.obligations(tier) if o.name.startswith("L4.get_tags_fetch")]
    obs += list(_c01.aux_obs("MAJOR.MINOR", 99, t))[1:]
    return obs
