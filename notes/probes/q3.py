import chfix, logging; logging.disable(logging.CRITICAL)
import typing as typ
from bumpver import v2patterns, v2version, version
from bumpver import setuptools_v65_version as sv

PAT = "vYYYY.0M.PATCH[-TAG[NUM]]"
PEP = v2patterns._convert_to_pep440(PAT)
TAGS = ["final", "alpha", "beta", "rc", "dev", "post"]
PY = {"final": "", "alpha": "a", "beta": "b", "rc": "rc", "dev": "dev", "post": "post"}
BASE = v2version.parse_field_values_to_vinfo({'major': "0"})

def same(y: int, m: int, pa: int, tag_i: int, num: int) -> bool:
    """
    pre: 1000 <= y <= 9999 and 1 <= m <= 12 and 0 <= pa <= 999 and 0 <= tag_i <= 5 and 0 <= num <= 99
    pre: tag_i != 0 or num == 0
    post: _
    """
    tag = TAGS[tag_i]
    v = BASE._replace(year_y=y, month=m, patch=pa, tag=tag, pytag=PY[tag], num=num)
    s = v2version.format_version(v, PAT)
    p = v2version.format_version(v, PEP)
    try:
        a = sv.Version(s)
    except sv.InvalidVersion:
        return True
    b = sv.Version(p)
    return a._key == b._key and not p.startswith("v")
