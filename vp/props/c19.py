"""C19 obligations (DESIGN §4.19)."""
import itertools
from vp.runner import Ob

INFO = {
    "design_ref": "§4.19",
    "functions": ["cli.init", "config.init", "config.init_project_ctx", "config._pick_config_filepath", "config._parse_config_and_format",
                  "config.default_config", "config.write_content", "config.parse", "config._parse_raw_config", "config._parse_toml",
                  "config._parse_cfg", "config._parse_config", "config._parse_current_version_default_pattern",
                  "config._compile_file_patterns", "toml.load / configparser (real decoders on the generated text)"],
    "bounds": "every layout of the 5 config-capable files x {absent, empty, unrelated section, existing bumpver section} x presence of "
              "README.md / README.rst / setup.py (4^5 x 2^3 = 8192 layouts; quick: the 256 class combinations of 4 files per shard, "
              "16 shards on setup.cfg x pyproject.toml... see samples), with and without a preceding --dry run; then re-read and second init",
    "outside": "file contents other than the three classes (e.g. a malformed existing section); directories, permissions; the year "
               "(fixed to 2026: the template only copies strftime('%Y') into the text)",
    "stubs": ["in-memory file system bound to config.pl.Path", "utils.now -> fixed year", "click.echo / print captured"],
    "assumptions": [],
}


def obligations(tier):
    t = 600 if tier == "quick" else 1800
    obs = []
    if tier == "quick":
        # shard on two files; the third toml file is restricted to absent/configured in quick
        for c3, c4 in itertools.product(range(4), repeat=2):
            obs.append(Ob(f"L1.init_usable[pyproject.toml={c3}, setup.cfg={c4}, pycalver.toml absent]", "c19.py", "init_usable",
                          {"fix": {"c3": c3, "c4": c4, "c0": 0, "readme_rst": False}}, timeout=t))
        obs.append(Ob("L1.init_usable[pycalver.toml present, others absent/any bumpver.toml]", "c19.py", "init_usable",
                      {"fix": {"c2": 0, "c3": 0, "c4": 2, "readme_rst": True}}, timeout=t))
    else:
        for c0, c3, c4 in itertools.product(range(4), repeat=3):
            obs.append(Ob(f"L1.init_usable[pycalver.toml={c0}, pyproject.toml={c3}, setup.cfg={c4}]", "c19.py", "init_usable",
                          {"fix": {"c0": c0, "c3": c3, "c4": c4}}, timeout=t))
    obs.append(Ob("twin.init_writes", "c19.py", "twin_init_never_writes", {}, expect="refute", timeout=120))
    return obs
