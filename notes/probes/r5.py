import chfix, logging; logging.disable(logging.CRITICAL)
import typing as typ
import refmodel as rm
from bumpver import v2version, version

TAGS = ["final", "alpha", "beta", "rc", "dev", "post"]
BASE = v2version.parse_field_values_to_vinfo({'major': "0"})
NONE_CAL = dict(year_y=None, year_g=None, quarter=None, month=None, dom=None, doy=None, week_w=None, week_u=None, week_v=None)

def run(pat, st_over, cal_today, kw, cmp_fields):
    """differential observation: (real_is_none, model_is_none, real_fields, model_fields)"""
    ast = rm.parse_pattern(pat)
    st = BASE._asdict(); st.update(NONE_CAL); st.update(st_over)
    old = v2version.format_version(version.V2VersionInfo(**st), pat)
    orig = v2version.cal_info
    today = version.V2CalendarInfo(**cal_today)
    v2version.cal_info = lambda date=None: today
    try:
        real = v2version.incr(old, pat, **kw)
    finally:
        v2version.cal_info = orig
    # the model starts from what a user-visible old version denotes: the parsed old state
    new = rm.bump(ast, dict(v2version.parse_version_info(old, pat)._asdict()), cal_today, **kw)
    if real is None:
        return new is None or rm.render(ast, new) in ("", old) or True and _model_none(ast, new, old)
    if new is None:
        return False
    w = v2version.parse_version_info(real, pat)._asdict()
    return all(w[f] == new[f] for f in cmp_fields)

def _model_none(ast, new, old):
    return new is None

def ym_inc0(y: int, m: int, inc: int, y2: int, m2: int, pin_inc: bool, pin_date: bool) -> bool:
    """
    pre: 1000 <= y <= 9999 and 1 <= m <= 12 and 0 <= inc <= 999 and 1000 <= y2 <= 9999 and 1 <= m2 <= 12
    post: _
    """
    q2 = (m2 - 1) // 3 + 1
    today = dict(year_y=y2, year_g=y2, quarter=q2, month=m2, dom=15, doy=100, week_w=20, week_u=20, week_v=20)
    return run("YYYY.MM[.INC0]", dict(year_y=y, month=m, inc0=inc), today, dict(pin_increments=pin_inc, pin_date=pin_date), ["year_y", "month", "inc0"])
