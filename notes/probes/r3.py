import chfix, logging; logging.disable(logging.CRITICAL)
import typing as typ
from bumpver import config

SPELL = ["yes", "true", "1", "on", "True", "YES", "On", "no", "false", "0", "off", "False", "", "2", "y"]
TRUTH = [True] * 7 + [False] * 8
OB = typ.Optional[bool]

class FakeCP:
    data: typ.Dict[str, typ.Dict[str, str]] = {}
    def read_file(self, buf): pass
    def has_section(self, s): return s in FakeCP.data
    def items(self, s): return list(FakeCP.data[s].items())

def _run(ini, tom):
    FakeCP.data = {"bumpver": ini}
    orig_cp, orig_toml = config._ConfigParser, config.toml
    config._ConfigParser = FakeCP
    config.toml = type("T", (), {"load": staticmethod(lambda buf: {"bumpver": dict(tom)})})
    try:
        r1 = r2 = None; e1 = e2 = False
        try: r1 = config._parse_config(config._parse_cfg(None))
        except ValueError: e1 = True
        try: r2 = config._parse_config(config._parse_toml(None))
        except ValueError: e2 = True
    finally:
        config._ConfigParser, config.toml = orig_cp, orig_toml
    if e1 or e2:
        return e1 and e2
    return all(getattr(r1, f) == getattr(r2, f) for f in r1._fields)

def commit_spelling(sp: int, tag: OB, push: OB) -> bool:
    """
    pre: 0 <= sp < len(SPELL)
    post: _
    """
    ini = {"current_version": "1.2.3", "version_pattern": "MAJOR.MINOR.PATCH", "commit": SPELL[sp]}
    tom: typ.Dict[str, typ.Any] = {"current_version": "1.2.3", "version_pattern": "MAJOR.MINOR.PATCH", "commit": TRUTH[sp]}
    if tag is not None:
        ini["tag"] = "True" if tag else "False"; tom["tag"] = tag
    if push is not None:
        ini["push"] = "True" if push else "False"; tom["push"] = push
    return _run(ini, tom)

def strings(msg: str, q: int, q2: int, tmsg: str) -> bool:
    """
    pre: len(msg) <= 3 and len(tmsg) <= 2 and 0 <= q <= 2 and 0 <= q2 <= 2
    pre: all(32 < ord(c) < 127 for c in msg) and all(32 < ord(c) < 127 for c in tmsg)
    post: _
    """
    Q = ["", '"', "'"][q]; Q2 = ["", '"', "'"][q2]
    ini = {"current_version": Q + "1.2.3" + Q, "version_pattern": Q2 + "MAJOR.MINOR.PATCH" + Q2, "commit_message": Q + msg + Q, "tag_message": Q2 + tmsg + Q2, "commit": "True"}
    tom = {"current_version": "1.2.3", "version_pattern": "MAJOR.MINOR.PATCH", "commit_message": msg, "tag_message": tmsg, "commit": True}
    return _run(ini, tom)
