"""C03 obligations (DESIGN §4.3)."""
from vp.runner import Ob, finding_open

INFO = {
    "design_ref": "§4.3",
    "functions": ["v2rewrite.rewrite_lines", "v1rewrite.rewrite_lines", "parse.iter_matches", "parse._iter_for_pattern", "parse._has_overlap",
                  "v2patterns.normalize_pattern", "v2version.format_version (replacement text)", "config._parse_current_version_default_pattern",
                  "config._compile_file_patterns", "config._parse_cfg (re-read of the rewritten setup.cfg)"],
    "bounds": "2 patterns ({version}, v{pep440_version}) in both configured orders x 2 lines of arbitrary text, len <= 5 (quick) / 7 "
              "(thorough); each (pattern, line) occurrence present or absent with an arbitrary span, spans on one line disjoint "
              "(adjacent allowed); v2 and legacy engines; overlap predicate over spans in 0..20 on 3 lines; config self-pattern over "
              "symbolic version digits and section orders",
    "outside": "more than one occurrence of the same pattern on one line (excluded by the property); lines longer than the bound (the "
               "code only slices); overlapping matches of different patterns (reported as 'possible greedy pattern'); 3+ patterns per file",
    "stubs": ["vp.fakere.FakeRe: match spans are symbolic inputs (validated per run against the real compiled regex on the repo's fixtures)"],
    "assumptions": ["which text a compiled pattern matches is C02/C07's subject"],
}
KEY_SHARED = "C03:two different patterns matching on the same line"
KEY_ADJ = "C03:adjacent spans of two patterns on one line counted as overlapping"


def validations(tier):
    from vp import fakere_check
    return [("FakeRe harness vs real compiled regex on rewrite fixtures", fakere_check.validate)]


def rewrite_shards(base, t, label, expect="confirm", finding=None, only=None):
    import itertools
    from vp import gen
    maxlen = base["len"]
    for ha0, hb0, ha1, hb1 in itertools.product((False, True), repeat=4):
        shared = (ha0 and hb0) or (ha1 and hb1)
        if only == "shared" and not shared:
            continue
        n0, n1 = ha0 + hb0, ha1 + hb1
        if n0 + n1 > 2 or (n1 == 2):
            continue   # three or more occurrences: outside the bound (each replacement only touches its own line)
        lens0 = list(range(2, maxlen + 1)) if n0 == 2 else [None]
        lens1 = [None]
        for L0, L1 in itertools.product(lens0, lens1):
            fixed = {"has_a0": ha0, "has_b0": hb0, "has_a1": ha1, "has_b1": hb1}
            ints = []
            for name, has in (("a0", ha0), ("b0", hb0), ("a1", ha1), ("b1", hb1)):
                if has:
                    ints += [("l" + name, 0, maxlen), ("r" + name, 0, maxlen)]
                else:
                    fixed["l" + name] = 0
                    fixed["r" + name] = 0
            args = "t0, t1, has_a0, la0, ra0, has_b0, lb0, rb0, has_a1, la1, ra1, has_b1, lb1, rb1"
            lenpre = []
            for tn, n, L in (("t0", n0, L0), ("t1", n1, L1)):
                lenpre.append(f"len({tn}) == {L}" if L is not None else f"len({tn}) <= {(2 if maxlen <= 5 else 3) if n == 1 else 0}")
            src = gen.wrapper("c03", f"c03.rewrite_two_lines({args})", ints=ints, strs=[("t0", maxlen), ("t1", maxlen)], fixed=fixed,
                              pres=[" and ".join(lenpre),
                                    "c03.span_ok(t0, has_a0, la0, ra0) and c03.span_ok(t0, has_b0, lb0, rb0) and c03.span_ok(t1, has_a1, la1, ra1) "
                                    "and c03.span_ok(t1, has_b1, lb1, rb1)",
                                    "c03.disjoint(has_a0, la0, ra0, has_b0, lb0, rb0) and c03.disjoint(has_a1, la1, ra1, has_b1, lb1, rb1)",
                                    f"c03.class_ok({args.split(', ', 2)[2]})"],
                              header=f"C03 rewrite_two_lines {label} {fixed} {lenpre}")
            occ = "".join("ab"[i % 2] + str(i // 2) for i, h in enumerate((ha0, hb0, ha1, hb1)) if h) or "none"
            yield Ob(f"L1.rewrite_two_lines[{label}; occurrences {occ}; {', '.join(lenpre)}]", "c03.py", "ob", base, timeout=t, source=src,
                     bounds=", ".join(lenpre), expect=expect, finding=finding)


def obligations(tier):
    obs = []
    ln = 5 if tier == "quick" else 6
    t = 300 if tier == "quick" else 1500
    open_shared, open_adj = finding_open(KEY_SHARED), finding_open(KEY_ADJ)
    for legacy in (False, True):
        eng = "v1" if legacy else "v2"
        for order in ([0, 1], [1, 0]):
            base = {"legacy": legacy, "len": ln, "order": order}
            ex = dict(base)
            if open_shared:
                ex["exclude_shared_line"] = True
            if open_adj:
                ex["exclude_adjacent"] = True
            obs += list(rewrite_shards(ex, t, f"{eng}, order {order}", only=None if order == [0, 1] else "shared"))
            if open_shared and order == [0, 1]:
                obs += list(rewrite_shards(dict(base, only_shared_line=True, exclude_adjacent=True), t, f"{eng}; known: shared line",
                                           expect="known", finding=KEY_SHARED, only="shared"))
    obs.append(Ob("L2.has_overlap_spec", "c03.py", "has_overlap_spec", {"exclude_adjacent": True} if open_adj else {}, timeout=t))
    if open_adj:
        obs.append(Ob("L2.has_overlap_spec[known: adjacent]", "c03.py", "has_overlap_spec", {"only_adjacent": True}, expect="known",
                      finding=KEY_ADJ, timeout=t))
    obs.append(Ob("twin.some_rewrite", "c03.py", "twin_never_rewrites", {}, expect="refute", timeout=60))
    obs.append(Ob("L4.self_pattern", "c03.py", "self_pattern", {}, timeout=2 * t))
    obs.append(Ob("L5.reread_closure[setup.cfg]", "c03.py", "reread_closure", {}, timeout=2 * t))
    obs.append(Ob("L6.merge_file_patterns", "c03.py", "merge_file_patterns", {}, timeout=t))
    return obs
