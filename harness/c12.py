"""C12 — messages, tag names and paths reach the VCS verbatim.

Real code: vcs.VCSAPI.__call__, .commit, .tag, .add, .push_tag (git and hg command tables),
cli._sub_msg_template + the template rendering of cli.update.
Symbolic: the message / tag / path text. Stub: subprocess.check_output (records argv), tempfile (hg log file).
"""
import vp.chpatch  # noqa
import json
import os

from bumpver import vcs, cli

P = json.loads(os.environ.get("VP_PARAMS", "{}"))
LEN = P.get("len", 3)
NO_QUOTE = P.get("exclude_single_quote", False)   # known-finding class S9
ONLY_QUOTE = P.get("only_single_quote", False)
TOOL = P.get("tool", "git")

TAG_ALPHABET = "0123456789abcdefghijklmnopqrstuvwxyz.-+_"


def in_class(m: str) -> bool:
    has = "'" in m
    if NO_QUOTE and has:
        return False
    if ONLY_QUOTE and not has:
        return False
    return True


def is_tag(t: str) -> bool:
    if not (1 <= len(t) <= LEN):
        return False
    for c in t:
        if c not in TAG_ALPHABET:
            return False
    return t[0] != "-"


class _Bytes:
    def decode(self, enc="utf-8"):
        return ""


class _SP:
    PIPE = -1
    CalledProcessError = vcs.sp.CalledProcessError

    def __init__(self):
        self.calls = []
        self.envs = []

    def check_output(self, cmd_parts, env=None, stderr=None):
        self.calls.append(list(cmd_parts))
        self.envs.append(env)
        return _Bytes()


class _TmpFile:
    name = "/tmp/vp_logfile"

    def __init__(self, rec):
        self.rec = rec

    def __enter__(self):
        return self

    def __exit__(self, *a):
        self.rec.append("closed")
        return False

    def write(self, data):
        self.rec.append(data)


class _Tempfile:
    def __init__(self):
        self.rec = []

    def NamedTemporaryFile(self, mode, delete=True):
        self.rec.append((mode, delete))
        return _TmpFile(self.rec)


class _Os:
    def __init__(self, rec):
        self.environ = {"HOME": "/h"}
        self.rec = rec
        self.path = os.path

    def unlink(self, name):
        self.rec.append(("unlink", name))


def _run(fn):
    """runs fn(api) with subprocess stubbed; returns the list of argv lists (or raises what bumpver raises)"""
    stub = _SP()
    saved = vcs.sp
    vcs.sp = stub
    try:
        fn(vcs.VCSAPI(TOOL))
    finally:
        vcs.sp = saved
    return stub.calls


def _same(a, b) -> bool:
    """element-wise equality of two argv lists"""
    if len(a) != len(b):
        return False
    for x, y in zip(a, b):
        if x != y:
            return False
    return True


def argv_commit_git(m: str) -> bool:
    """
    pre: len(m) <= LEN and in_class(m)
    post: _
    """
    calls = _run(lambda api: api.commit(m))
    return len(calls) == 1 and _same(calls[0], ["git", "commit", "--message", m])


def argv_tag(t: str, m: str) -> bool:
    """annotated tag (non-empty message) and lightweight tag (empty message)
    pre: is_tag(t) and len(m) <= LEN and in_class(m)
    post: _
    """
    calls = _run(lambda api: api.tag(t, m))
    if len(calls) != 1:
        return False
    if m:
        if TOOL == "git":
            return _same(calls[0], ["git", "tag", "--annotate", t, "--message", m])
        return _same(calls[0], ["hg", "tag", t, "--message", m])
    return _same(calls[0], [TOOL, "tag", t])


def argv_add(p: str) -> bool:
    """
    pre: 1 <= len(p) <= LEN and in_class(p)
    post: _
    """
    calls = _run(lambda api: api.add(p))
    if TOOL == "git":
        return len(calls) == 1 and _same(calls[0], ["git", "add", "--update", p])
    return len(calls) == 1 and _same(calls[0], ["hg", "add", p])


def argv_push_tag(t: str) -> bool:
    """
    pre: is_tag(t)
    post: _
    """
    def go(api):
        api.get_remote = lambda: "origin"
        api.push_tag(t)
    calls = _run(go)
    if TOOL == "git":
        return len(calls) == 1 and _same(calls[0], ["git", "push", "origin", "--follow-tags", t, "HEAD"])
    return len(calls) == 1 and _same(calls[0], ["hg", "push", t])


def hg_commit_logfile(m: str) -> bool:
    """hg: the message travels through a log file, byte for byte; the file is closed before hg runs and removed afterwards
    pre: len(m) <= LEN
    post: _
    """
    tf = _Tempfile()
    saved = (vcs.sp, vcs.tempfile, vcs.os)
    stub = _SP()
    vcs.sp, vcs.tempfile, vcs.os = stub, tf, _Os(tf.rec)
    try:
        vcs.VCSAPI("hg").commit(m)
    finally:
        vcs.sp, vcs.tempfile, vcs.os = saved
    rec = tf.rec
    if len(rec) != 4 or rec[0] != ("wb", False) or rec[2] != "closed" or rec[3] != ("unlink", "/tmp/vp_logfile"):
        return False
    if rec[1] != m.encode("utf-8"):
        return False
    return len(stub.calls) == 1 and _same(stub.calls[0], ["hg", "commit", "--logfile", "/tmp/vp_logfile"]) \
        and stub.envs[0].get("HGENCODING") == "utf-8"


def twin_argv_never_four(m: str) -> bool:
    """reachability twin: must be refuted
    pre: len(m) <= LEN
    post: _
    """
    try:
        calls = _run(lambda api: api.commit(m))
    except ValueError:
        return True
    return len(calls[0]) != 4


# ---- template layer -------------------------------------------------------------------------

SEPS = ["", " ", "-", "_", ".", "x", "1", "'"]
WORDS = ["OLD", "NEW", "OLDER", "old", "OLD_VERSION", "NEWS"]


def _ref_sub(msg: str) -> str:
    """reference for the OLD/NEW shorthand: whole words only (word = maximal run of [A-Za-z0-9_])"""
    out, i, n = [], 0, len(msg)
    while i < n:
        c = msg[i]
        if c.isalnum() or c == "_":
            j = i
            while j < n and (msg[j].isalnum() or msg[j] == "_"):
                j += 1
            word = msg[i:j]
            out.append("{" + word + "_VERSION}" if word in ("OLD", "NEW") else word)
            i = j
        else:
            out.append(c)
            i += 1
    return "".join(out)


def shorthand(i: int, j: int, k: int) -> bool:
    """`-c "bump OLD -> NEW"`: OLD/NEW are replaced exactly when they stand as whole words
    (finite table, the solver enumerates the index combinations)
    pre: 0 <= i < len(SEPS) and 0 <= j < len(WORDS) and 0 <= k < len(SEPS)
    post: _
    """
    msg = SEPS[i] + WORDS[j] + SEPS[k] + "NEW"
    return cli._sub_msg_template(msg) == _ref_sub(msg)


def commit_tag_argv(cfg_msg_empty: bool, m: str) -> bool:
    """vcs.commit -> VCSAPI.tag: the tag command carries the effective tag message (CLI or config, after substitution) verbatim,
    annotated whenever that message is non-empty, whatever the configured template is
    pre: len(m) <= LEN and in_class(m)
    post: _
    """
    from bumpver import config
    cfg = config.Config(
        current_version="1.2.3", version_pattern="MAJOR.MINOR.PATCH", pep440_version="1.2.3", commit_message="c",
        tag_message="" if cfg_msg_empty else "{new_version}", tag_scope=config.TagScope.DEFAULT, pre_commit_hook="",
        post_commit_hook="", commit=True, tag=True, push=False, is_new_pattern=True, file_patterns={})
    stub = _SP()
    tf = _Tempfile()
    saved = (vcs.sp, vcs.tempfile, vcs.os)
    vcs.sp, vcs.tempfile, vcs.os = stub, tf, _Os(tf.rec)
    try:
        # (hg writes the commit message to a log file: that path has its own lemma, hg_commit_logfile)
        vcs.commit(cfg, vcs.VCSAPI(TOOL), [m + ".txt"], "1.2.4", ("msg " + m) if TOOL == "git" else "msg", m)
    finally:
        vcs.sp, vcs.tempfile, vcs.os = saved
    tags = [c for c in stub.calls if c[:2] == [TOOL, "tag"]]
    if len(tags) != 1:
        return False
    # the staged path and (git) the commit message travel through the same real API, each as one argument, in order
    adds = [c for c in stub.calls if c[:2] == [TOOL, "add"]]
    if len(adds) != 1 or adds[0][-1] != m + ".txt" or stub.calls.index(adds[0]) > stub.calls.index(tags[0]):
        return False
    if TOOL == "git":
        commits = [c for c in stub.calls if c[:2] == ["git", "commit"]]
        if len(commits) != 1 or not _same(commits[0], ["git", "commit", "--message", "msg " + m]):
            return False
    if m:
        want = ["git", "tag", "--annotate", "1.2.4", "--message", m] if TOOL == "git" else ["hg", "tag", "1.2.4", "--message", m]
    else:
        want = [TOOL, "tag", "1.2.4"]
    return _same(tags[0], want)


# ---------------------------------------------------------------------------------------------------------------------
# L5: the configured template reaches the settings object as written in the config file (setup.cfg: no interpolation of '%',
# no case folding, inner quotes kept; only the surrounding quotes and blanks are dropped)

CFG_TEMPLATES = [
    "bump {old_version} -> {new_version} (100% done)",
    "cov 100%% [%(version_pattern)s] {new_version}",
    "20% faster; $HOME `id` -m 'x' \\n {new_version}",
    "--amend {new_version} # not a comment ; either",
    "Release: {new_version}=It's \"the\" one",
]


def configured_template_verbatim(k: int, quote: int, which: bool, toml_file: bool) -> bool:
    """
    pre: 0 <= k < len(CFG_TEMPLATES) and 0 <= quote <= 2
    post: _
    """
    from bumpver import config
    from vp.memfs import MemFS, NS
    from vp import hygiene
    hygiene.restore_module_state(config)
    tpl = CFG_TEMPLATES[k]
    key = "commit_message" if which else "tag_message"
    if toml_file:
        fname = "bumpver.toml"
        text = '[bumpver]\ncurrent_version = "1.2.3"\nversion_pattern = "MAJOR.MINOR.PATCH"\ncommit = true\ntag = true\n' + \
               key + " = '''" + tpl + "'''\n\n[bumpver.file_patterns]\n\"bumpver.toml\" = ['current_version = \"{version}\"']\n"
    else:
        fname = "setup.cfg"
        q = ['"', "'", ""][quote]
        if q and (tpl.endswith(q) or tpl.startswith(q)):
            return True
        text = "[bumpver]\ncurrent_version = 1.2.3\nversion_pattern = MAJOR.MINOR.PATCH\ncommit = True\ntag = True\n" + \
               key + " = " + q + tpl + q + "\n\n[bumpver:file_patterns]\nsetup.cfg =\n    current_version = {version}\n"
    fs = MemFS({fname: text})
    saved = config.pl
    config.pl = NS(Path=fs.Path)
    try:
        ctx = config.init_project_ctx(".")
        cfg = config.parse(ctx)
    finally:
        config.pl = saved
    if cfg is None:
        return False
    return getattr(cfg, key) == tpl
