#!/usr/bin/env python3
"""Runs the pinned suite in <repo dir> (default /repo) and compares with BASELINE.json's stable_pass list.
usage: tools/suite.py [repo_dir]   exit 0 iff every baseline test still passes."""
import json, re, subprocess, sys, tempfile, os, xml.etree.ElementTree as ET
norm = lambda t: re.sub(r"20\d\d(\d\d)?(?=\.1001)", "D", t)  # ids of date-parametrised tests
repo = sys.argv[1] if len(sys.argv) > 1 else "/repo"
base = json.load(open("/root/.vp/BASELINE.json"))
with tempfile.TemporaryDirectory() as d:
    xml = os.path.join(d, "j.xml")
    env = dict(os.environ)
    if repo != "/repo":
        env["PYTHONPATH"] = os.path.join(repo, "src")
    p = subprocess.run(["/venv/bin/python", "-m", "pytest", "-ra", "-q", "-p", "no:cacheprovider", "--timeout=900",
                        "--continue-on-collection-errors", f"--junitxml={xml}"], cwd=repo, env=env, capture_output=True, text=True)
    passed = set()
    for tc in ET.parse(xml).getroot().iter("testcase"):
        if not any(ch.tag in ("failure", "error", "skipped") for ch in tc):
            passed.add(norm(f"{tc.get('classname')}::{tc.get('name')}"))
subprocess.run(["git", "checkout", "--", "README.md"], cwd=repo, capture_output=True)
missing = [t for t in base["stable_pass"] if norm(t) not in passed]
print(f"passed={len(passed)} baseline={len(base['stable_pass'])} missing={len(missing)}")
for t in missing[:20]:
    print("  MISSING", t)
print(p.stdout.strip().splitlines()[-1] if p.stdout.strip() else p.stderr[-500:])
sys.exit(1 if missing else 0)
