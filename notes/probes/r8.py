import chfix, logging; logging.disable(logging.CRITICAL)
import typing as typ, io
import toml, configparser

def toml_rt(y: int, b: int) -> bool:
    """
    pre: 1000 <= y <= 9999 and 1000 <= b <= 9999
    post: _
    """
    text = '[bumpver]\ncurrent_version = "' + str(y) + '.' + str(b) + '"\nversion_pattern = "YYYY.BUILD"\n\n[bumpver.file_patterns]\n"README.md" = [\n    "{version}",\n]\n'
    d = toml.loads(text)
    v = d["bumpver"]["current_version"]
    return len(v) == 9 and int(v[:4]) == y and int(v[5:]) == b

def cfg_rt(y: int, b: int) -> bool:
    """
    pre: 1000 <= y <= 9999 and 1000 <= b <= 9999
    post: _
    """
    text = '[bumpver]\ncurrent_version = "' + str(y) + '.' + str(b) + '"\nversion_pattern = "YYYY.BUILD"\n\n[bumpver:file_patterns]\nREADME.md =\n    {version}\n'
    p = configparser.RawConfigParser()
    p.read_file(io.StringIO(text))
    v = p.get("bumpver", "current_version")
    return len(v) == 11 and int(v[1:5]) == y and int(v[6:10]) == b
