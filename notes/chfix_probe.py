from crosshair.libimpl import relib
def _groupdict(self, default=None):
    ret = {}
    for name, idx in self.re.groupindex.items():
        if self._groups[idx] is None:
            ret[name] = default
        else:
            ret[name] = self.group(idx)
    return ret
relib._Match.groupdict = _groupdict

import re as _re
def _uim(cp):
    mask = relib._UNICODE_IGNORECASE_MASKS.get(cp)
    if mask is None:
        chars = relib.caseable_chars()
        matches = _re.compile(_re.escape(chr(cp)), _re.IGNORECASE).findall(chars)
        mask = relib.CharMask([ord(c) for c in matches])
        relib._UNICODE_IGNORECASE_MASKS[cp] = mask
    return mask
relib.unicode_ignorecase_mask = _uim

# --- patch 3: symbolic format(int, "" | "0N") ---
from crosshair import core as _core
from crosshair.libimpl import builtinslib as _bl
from crosshair.tracers import NoTracing as _NoTracing, ResumedTracing as _ResumedTracing
_orig_format = _core._PATCH_REGISTRATIONS[format]
def _sym_format(obj, format_spec=""):
    with _NoTracing():
        is_symint = isinstance(obj, _bl.SymbolicInt)
        spec = format_spec if isinstance(format_spec, str) else None
    if is_symint and spec is not None:
        if spec in ("", "d"):
            return str(obj)
        if len(spec) >= 2 and spec[0] == "0" and spec[1:].isdigit() and 2 <= int(spec[1:]) <= 12:
            width = int(spec[1:])
            if obj >= 0:
                s = str(obj)
                for k in range(1, width):
                    if obj < 10 ** k:
                        return "0" * (width - k) + s
                return s
    return _orig_format(obj, format_spec)
_core._PATCH_REGISTRATIONS[format] = _sym_format

# --- patch 4: backtracking into the body of a repeat (relib matches mandatory repetitions atomically) ---
_orig_imp = relib._internal_match_patterns
def _imp(top_patterns, flags, string, offset, allow_empty=True, ord=ord, chr=chr):
    if len(top_patterns) > 0:
        pattern = top_patterns[0]
        if relib.single_char_mask(pattern, flags, ord=ord, chr=chr) is None:
            op, arg = pattern
            if op in (relib.MIN_REPEAT, relib.MAX_REPEAT):
                min_repeat, max_repeat, subpattern = arg
                if min_repeat >= 1 and max_repeat >= min_repeat:
                    rest_max = max_repeat if max_repeat == relib.MAXREPEAT else max_repeat - 1
                    new_top = list(subpattern) + [(op, (min_repeat - 1, rest_max, subpattern))] + list(top_patterns)[1:]
                    # guard against empty-body loops: only flatten when the body cannot match empty
                    lo, _hi = subpattern.getwidth()
                    if lo >= 1:
                        return relib._internal_match_patterns(new_top, flags, string, offset, allow_empty, ord=ord, chr=chr)
    return _orig_imp(top_patterns, flags, string, offset, allow_empty, ord=ord, chr=chr)
relib._internal_match_patterns = _imp

# --- patch 5: equality of two symbolic strings whose codepoint containers differ in type (e.g. after strip/slice) ---
_orig_eq = _bl.LazyIntSymbolicStr.__eq__
def _lazy_eq(self, other):
    with _NoTracing():
        both = isinstance(other, _bl.LazyIntSymbolicStr)
    if both:
        if len(self) != len(other):
            return False
        n = len(self)
        a, b = self._codepoints, other._codepoints
        for i in range(n):
            if a[i] != b[i]:
                return False
        return True
    return _orig_eq(self, other)
_bl.LazyIntSymbolicStr.__eq__ = _lazy_eq
