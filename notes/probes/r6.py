import chfix, logging; logging.disable(logging.CRITICAL)
import typing as typ
import symcal2 as symcal
from bumpver import v2version, version
v2version.int = symcal.smart_int
v2version.dt = symcal.dt_stub(); version.dt = symcal.dt_stub()

def total_ymd(y: int, m: int, d: int) -> bool:
    """
    pre: 2001 <= y <= 2099 and 1 <= m <= 12 and 1 <= d <= 31
    post: _ in (True, False)
    """
    tag = str(y) + "." + symcal.zpad(m, 2) + "." + symcal.zpad(d, 2) if hasattr(symcal, "zpad") else str(y) + "." + format(m, "02") + "." + format(d, "02")
    return v2version.is_valid(tag, "YYYY.0M.0D")

def total_yj(y: int, j: int) -> bool:
    """
    pre: 2001 <= y <= 2099 and 1 <= j <= 366
    post: _ in (True, False)
    """
    tag = str(y) + "." + str(j)
    return v2version.is_valid(tag, "YYYY.JJJ")
