"""tools/smoke.py <Cxx> [tier] [cap_s] [workers] [name-substring] — runs every obligation of a tier with a short timeout and prints only the verdicts
that would make the check fail (counterexample where a confirmation is expected, confirmation where a refutation is expected, errors).
A development aid for finding harness errors in thorough-only shards early; it decides nothing (timeouts are not reported)."""
import sys, importlib
from concurrent.futures import ThreadPoolExecutor
sys.path.insert(0, "/verif")
from vp import runner
pid = sys.argv[1]
tier = sys.argv[2] if len(sys.argv) > 2 else "thorough"
cap = int(sys.argv[3]) if len(sys.argv) > 3 else 60
workers = int(sys.argv[4]) if len(sys.argv) > 4 else 12
mod = importlib.import_module(f"vp.props.{pid.lower()}")
quick = {o.name for o in mod.obligations("quick")} if tier != "quick" else set()
sub = sys.argv[5] if len(sys.argv) > 5 else ""
obs = [o for o in mod.obligations(tier) if o.name not in quick and sub in o.name]
n = [0, 0]


def run(ob):
    ob.timeout = min(ob.timeout, cap)
    r = runner.execute(ob)
    n[0] += 1
    bad = (r.verdict == "counterexample" and ob.expect == "confirm") or (r.verdict == "confirmed" and ob.expect != "confirm") \
        or r.verdict == "error"
    if r.verdict == "confirmed":
        n[1] += 1
    if bad:
        print("BAD", r.verdict, ob.name, round(r.wall, 1), r.detail[:200], r.call, flush=True)


with ThreadPoolExecutor(workers) as ex:
    list(ex.map(run, obs))
print(f"smoke {pid} {tier}: {n[0]} obligations run with cap {cap}s, {n[1]} confirmed within the cap")
