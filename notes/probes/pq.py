import chfix, logging; logging.disable(logging.CRITICAL)
import typing as typ
from bumpver import v1version, version

BASE = v1version.parse_version_info("v201712.0033-beta", "{pycalver}")
TAGS = ["final", "alpha", "beta", "rc", "dev", "post"]

def rt(y: int, m: int, b: int, tag_i: int) -> bool:
    """
    pre: 2000 <= y <= 2099 and 1 <= m <= 12 and 1000 <= b <= 99998 and 0 <= tag_i <= 5
    post: _
    """
    v = BASE._replace(year=y, month=m, bid=str(b), tag=TAGS[tag_i])
    s = v1version.format_version(v, "{pycalver}")
    w = v1version.parse_version_info(s, "{pycalver}")
    return (w.year, w.month, int(w.bid), w.tag) == (y, m, b, TAGS[tag_i])

def rt_semver(a: int, b: int, c: int) -> bool:
    """
    pre: 0 <= a <= 999 and 0 <= b <= 999 and 0 <= c <= 999
    post: _
    """
    v = BASE._replace(major=a, minor=b, patch=c)
    s = v1version.format_version(v, "{semver}")
    w = v1version.parse_version_info(s, "{semver}")
    return (w.major, w.minor, w.patch) == (a, b, c)
