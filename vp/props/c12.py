"""C12 obligations (DESIGN §4.12)."""
from vp.runner import Ob, finding_open
from vp.props import c10 as _c10

INFO = {
    "design_ref": "§4.12",
    "functions": ["vcs.VCSAPI.__call__", "vcs.VCSAPI.commit", "vcs.VCSAPI.tag", "vcs.VCSAPI.add", "vcs.VCSAPI.push_tag",
                  "cli._sub_msg_template", "cli.update (message rendering, via the C10 skeleton harness)"],
    "bounds": "message / path: any str of length <= 3 (quick) / 5 (thorough) over the whole code-point range CrossHair explores "
              "(quotes, backslash, blanks, newline, '$', backtick, leading '-', non-ASCII); tag: 1..len chars of [0-9a-z.+_-]; git and hg tables",
    "outside": "longer strings (shlex and str.format are position-oblivious, but that is argued, not checked); tag names outside the "
               "version alphabet (a version pattern cannot contain blanks); braces in message templates other than the documented placeholders",
    "stubs": ["subprocess.check_output -> argv recorder", "tempfile/os.unlink recorder for the hg log file"],
    "assumptions": ["argv handed to subprocess.check_output as a list reaches the VCS unchanged (no shell is involved)"],
}

KEY_QUOTE = "C12:single quote in a commit/tag message or path"


def obligations(tier):
    ln = 3 if tier == "quick" else 5
    t = 120 if tier == "quick" else 900
    is_open = finding_open(KEY_QUOTE)
    obs = []
    for tool in ("git", "hg"):
        base = {"len": ln, "tool": tool}
        if is_open:
            base["exclude_single_quote"] = True
        if tool == "git":
            obs.append(Ob(f"L1.argv_commit[{tool}]", "c12.py", "argv_commit_git", base, timeout=t, bounds=f"len(m)<={ln}"))
        obs.append(Ob(f"L1.argv_tag[{tool}]", "c12.py", "argv_tag", dict(base, len=min(ln, 3 if tier == "quick" else 4)), timeout=t))
        obs.append(Ob(f"L1.argv_add[{tool}]", "c12.py", "argv_add", base, timeout=t))
        obs.append(Ob(f"L1.argv_push_tag[{tool}]", "c12.py", "argv_push_tag", base, timeout=t))
    if is_open:
        obs.append(Ob("L1.argv_commit[known: single quote]", "c12.py", "argv_commit_git", {"len": ln, "tool": "git", "only_single_quote": True},
                      expect="known", finding=KEY_QUOTE, timeout=t))
    for tool in ("git", "hg"):
        obs.append(Ob(f"L1.commit_tag_argv[{tool}]", "c12.py", "commit_tag_argv", {"len": min(ln, 3), "tool": tool}, timeout=t))
    obs.append(Ob("L1.hg_commit_logfile", "c12.py", "hg_commit_logfile", {"len": ln}, timeout=t))
    obs.append(Ob("twin.argv_reached", "c12.py", "twin_argv_never_four", {"len": ln}, expect="refute", timeout=60))
    obs.append(Ob("L2.shorthand", "c12.py", "shorthand", {}, timeout=t))
    obs.append(Ob("L5.configured_template_verbatim", "c12.py", "configured_template_verbatim", {}, timeout=t,
                  bounds="5 templates with %, %%, %(name)s, $, backticks, quotes, leading dashes, # and ; x commit/tag message x "
                         "setup.cfg (3 quoting styles) / bumpver.toml"))
    # L3: the update command hands the rendered templates on: configured templates verbatim (placeholders only), OLD/NEW shorthand
    # only for the command line options (skeleton shared with C10)
    obs += [o for o in _c10.obligations(tier) if o.name.startswith("L3.update_skeleton[!dry") and o.name.endswith(",gate]")]
    return obs
