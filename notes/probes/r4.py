import chfix, logging; logging.disable(logging.CRITICAL)
import typing as typ
from bumpver import v2version, version

TAGS = ["final", "alpha", "beta", "rc", "dev", "post", "preview"]
PY = {"final": "", "alpha": "a", "beta": "b", "rc": "rc", "dev": "dev", "post": "post", "preview": "rc"}
BASE = v2version.parse_field_values_to_vinfo({'major': "0"})

def _rt(pat, **kw):
    v = BASE._replace(**kw)
    s = v2version.format_version(v, pat)
    w = v2version.parse_version_info(s, pat)
    s2 = v2version.format_version(w, pat)
    w2 = v2version.parse_version_info(s2, pat)
    return w, w2

def default_pat(y: int, m: int, b: int, z: int, tag_i: int) -> bool:
    """
    pre: 1000 <= y <= 9999 and 1 <= m <= 12 and 1 <= b <= 99999 and 0 <= z <= 2 and 0 <= tag_i <= 6
    post: _
    """
    tag = TAGS[tag_i]
    bid = "0" * z + str(b)
    w, w2 = _rt("vYYYY0M.BUILD[-TAG]", year_y=y, month=m, bid=bid, tag=tag, pytag=PY[tag])
    return (w.year_y, w.month, int(w.bid), len(w.bid), w.tag) == (y, m, b, len(bid), tag) and w2 == w

def nested(ma: int, mi: int, pa: int, tag_i: int, num: int) -> bool:
    """
    pre: 0 <= ma <= 999 and 0 <= mi <= 999 and 0 <= pa <= 999 and 0 <= tag_i <= 6 and 0 <= num <= 99
    pre: ma + mi + pa + tag_i + num > 0
    post: _
    """
    tag = TAGS[tag_i]
    w, w2 = _rt("vMAJOR[.MINOR[.PATCH[-TAG[NUM]]]]", major=ma, minor=mi, patch=pa, tag=tag, pytag=PY[tag], num=num)
    return (w.major, w.minor, w.patch, w.tag, w.num) == (ma, mi, pa, tag, num) and w2 == w
