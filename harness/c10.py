"""C10 — VCS steps run only as configured, in order, and stop at the first failure.

Real code: cli._parse_vcs_options, cli.update (control skeleton), vcs.commit, vcs.get_tags, VCSAPI.fetch/tag/push/push_tag,
hooks.run.  (cli._update's ordering lemma lives in harness/c11.py: update_order.)
Symbolic: config booleans, tri-state flags, hooks, dry, fetch, failing step.
Stubs: recorders at module seams (config.init, _update_cfg_from_vcs, incr_dispatch, _is_valid_version, _print_diff, _try_update),
subprocess (argv recorder), Popen (hook recorder).
"""
import vp.chpatch  # noqa
import json
import os
import typing as typ

from bumpver import cli, config, vcs, hooks, version

P = json.loads(os.environ.get("VP_PARAMS", "{}"))
TOOL = P.get("tool", "git")

FIX = P.get("fix", {})


def fx(name: str, value) -> bool:
    """shard selector: arguments named in params['fix'] are pinned to the given value"""
    return FIX.get(name, value) == value


SCOPES = [config.TagScope.DEFAULT, config.TagScope.GLOBAL, config.TagScope.BRANCH]


def _cfg(commit: bool, tag: bool, push: bool, pre: str = "", post: str = "", scope=config.TagScope.DEFAULT,
         cmsg="bump OLD api {old_version} -> {new_version} (NEW)", tmsg="NEW tag {new_version}"):
    return config.Config(
        current_version="1.2.3", version_pattern="MAJOR.MINOR.PATCH", pep440_version="1.2.3",
        commit_message=cmsg, tag_message=tmsg, tag_scope=scope,
        pre_commit_hook=pre, post_commit_hook=post, commit=commit, tag=tag, push=push, is_new_pattern=True,
        file_patterns={"a.txt": [], "b.txt": []},
    )


# ---------------------------------------------------------------------------------------------
# L1: flag/config resolution

TAG_ARGS = [None, "beta", "gamma"]


def _spec_options(c_commit, c_tag, c_push, f_commit, f_tag, f_push):
    """README: flags override the config; tag and push need a commit. Returns None when contradictory."""
    commit = c_commit if f_commit is None else f_commit
    if not commit and (f_tag or f_push):
        return None
    tag = c_tag if f_tag is None else f_tag
    push = c_push if f_push is None else f_push
    return (commit, tag, push)


def parse_vcs_options(c_commit: bool, c_tag: bool, c_push: bool, f_commit: typ.Optional[bool], f_tag: typ.Optional[bool],
                      f_push: typ.Optional[bool], scope: int, pre: typ.Optional[str], post: typ.Optional[str]) -> bool:
    """
    pre: (c_commit or not c_tag) and (c_commit or not c_push)
    pre: -1 <= scope <= 2
    pre: pre is None or len(pre) <= 2
    pre: post is None or len(post) <= 2
    post: _
    """
    cfg = _cfg(c_commit, c_tag, c_push, "cfgpre", "cfgpost", config.TagScope.GLOBAL)
    want = _spec_options(c_commit, c_tag, c_push, f_commit, f_tag, f_push)
    scope_arg = None if scope < 0 else SCOPES[scope].value
    try:
        got = cli._parse_vcs_options(cfg, f_commit, f_tag, f_push, scope_arg, pre, post)
    except ValueError:
        return want is None
    if want is None:
        return False
    if (got.commit, got.tag, got.push) != want:
        return False
    if got.tag_scope != (config.TagScope.GLOBAL if scope < 0 else SCOPES[scope]):
        return False
    if got.pre_commit_hook != ("cfgpre" if pre is None else pre):
        return False
    if got.post_commit_hook != ("cfgpost" if post is None else post):
        return False
    # nothing else may change
    return got._replace(commit=cfg.commit, tag=cfg.tag, push=cfg.push, tag_scope=cfg.tag_scope,
                        pre_commit_hook=cfg.pre_commit_hook, post_commit_hook=cfg.post_commit_hook) == cfg


# ---------------------------------------------------------------------------------------------
# L2: vcs.commit — steps, order, first failure stops everything

class _Fail(Exception):
    pass


class _RecAPI:
    name = "git"

    def __init__(self, log, fail_at):
        self.log, self.fail_at = log, fail_at

    def _step(self, item):
        self.log.append(item)
        if len(self.log) - 1 == self.fail_at:
            raise vcs.sp.CalledProcessError(1, ["git"])

    def add(self, path):
        self._step(("add", path))

    def commit(self, message):
        self._step(("commit", message))

    def tag(self, tag_name, tag_message):
        self._step(("tag", tag_name, tag_message))

    def push(self):
        self._step(("push",))

    def push_tag(self, tag_name):
        self._step(("push_tag", tag_name))


def commit_sequence(commit: bool, tag: bool, push: bool, has_pre: bool, has_post: bool, fail_at: int, empty_tag_msg: bool) -> bool:
    """
    pre: -1 <= fail_at <= 8
    post: _
    """
    tag_msg = "" if empty_tag_msg else "the tag message"
    log: typ.List[tuple] = []
    cfg = _cfg(commit, tag, push, "pre.sh" if has_pre else "", "post.sh" if has_post else "")
    api = _RecAPI(log, fail_at)

    def hook_run(path, old, new):
        log.append(("hook", path, old, new))
        if len(log) - 1 == fail_at:
            raise SystemExit(1)

    want: typ.List[tuple] = []
    if commit:
        if has_pre:
            want.append(("hook", "pre.sh", "1.2.3", "1.2.4"))
        want.append(("add", "a.txt"))
        want.append(("add", "b.txt"))
        want.append(("commit", "the message"))
        if has_post:
            want.append(("hook", "post.sh", "1.2.3", "1.2.4"))
        if tag:
            want.append(("tag", "1.2.4", tag_msg))
        if push:
            want.append(("push_tag", "1.2.4") if tag else ("push",))
    saved = hooks.run
    hooks.run = hook_run
    failed = False
    try:
        try:
            vcs.commit(cfg, api, ["a.txt", "b.txt"], "1.2.4", "the message", tag_msg)
        except (SystemExit, vcs.sp.CalledProcessError):
            failed = True
    finally:
        hooks.run = saved
    if 0 <= fail_at < len(want):
        return failed and log == want[:fail_at + 1]
    return (not failed) and log == want


# ---------------------------------------------------------------------------------------------
# L3: cli.update skeleton

class _Rec:
    def __init__(self):
        self.calls = []


def update_skeleton(dry: bool, allow_dirty: bool, ignore_vcs_tag: bool, fetch: bool, verbose2: bool,
                    has_set_version: bool, has_candidate: bool, gate_ok: bool,
                    c_commit: bool, c_tag: bool, c_push: bool,
                    f_commit: typ.Optional[bool], f_tag: typ.Optional[bool], f_push: typ.Optional[bool],
                    scope: int, cli_msg: bool, tag_i: int = 0, has_date: bool = False, pin_date: bool = True) -> bool:
    """
    pre: (c_commit or not c_tag) and (c_commit or not c_push)
    pre: 0 <= scope <= 2 and 0 <= tag_i <= 2
    pre: fx("dry", dry) and fx("set", has_set_version) and fx("ign", ignore_vcs_tag) and fx("gate", gate_ok)
    pre: FIX.get("validation", False) or (tag_i == 0 and not has_date and pin_date)
    pre: fx("f_commit", f_commit) and fx("f_tag", f_tag) and fx("f_push", f_push) and fx("c_commit", c_commit) and fx("c_tag", c_tag) and fx("c_push", c_push)
    pre: fx("allow_dirty", allow_dirty) and fx("fetch", fetch) and fx("verbose2", verbose2) and fx("cli_msg", cli_msg) and fx("scope", scope)
    post: _
    """
    log: typ.List[tuple] = []
    cfg0 = _cfg(c_commit, c_tag, c_push, "", "", SCOPES[scope])
    vcs_cfg_marker = []

    def config_init(project_path=".", cfg_missing_ok=False):
        log.append(("config.init",))
        return (None, cfg0)

    def update_cfg_from_vcs(cfg, fetch_arg):
        log.append(("vcs_resolve", fetch_arg))
        new = cfg._replace(current_version="1.2.9", pep440_version="1.2.9")
        vcs_cfg_marker.append(new)
        return new

    def incr_dispatch(old_version, **kw):
        log.append(("incr", old_version, kw["raw_pattern"], kw["major"], kw["minor"], kw["patch"], kw["tag"], kw["tag_num"],
                    kw["pin_increments"], kw["pin_date"], kw["maybe_date"]))
        return "1.3.0" if has_candidate else None

    def is_valid_version(raw_pattern, old_version, new_version, unique=False):
        log.append(("gate", raw_pattern, old_version, new_version, unique))
        return gate_ok

    def print_diff(cfg, new_version):
        log.append(("diff", cfg.current_version, new_version))

    def try_update(cfg, new_version, commit_message, tag_message, allow_dirty_arg=False):
        log.append(("write", cfg, new_version, commit_message, tag_message, allow_dirty_arg))

    saved = (config.init, cli._update_cfg_from_vcs, cli.incr_dispatch, cli._is_valid_version, cli._print_diff, cli._try_update,
             cli._configure_logging)
    config.init = config_init
    cli._update_cfg_from_vcs, cli.incr_dispatch, cli._is_valid_version = update_cfg_from_vcs, incr_dispatch, is_valid_version
    cli._print_diff, cli._try_update = print_diff, try_update
    cli._configure_logging = lambda verbose=0: None
    code: typ.Optional[int] = None
    try:
        try:
            cli.update.callback(
                dry=dry, allow_dirty=allow_dirty, ignore_vcs_tag=ignore_vcs_tag, fetch=fetch, verbose=2 if verbose2 else 0,
                major=False, minor=True, patch=False, tag=TAG_ARGS[tag_i], tag_num=False, pin_increments=False, pin_date=pin_date,
                date="2020-10-15" if has_date else None,
                set_version="1.4.0" if has_set_version else None,
                commit_message="release NEW (was OLD)" if cli_msg else None, tag_message=None,
                commit=f_commit, tag_commit=f_tag, push=f_push, tag_scope=None, pre_commit_hook=None, post_commit_hook=None,
            )
        except SystemExit as ex:
            code = ex.code if isinstance(ex.code, int) else 1
    finally:
        (config.init, cli._update_cfg_from_vcs, cli.incr_dispatch, cli._is_valid_version, cli._print_diff, cli._try_update,
         cli._configure_logging) = saved

    opts = _spec_options(c_commit, c_tag, c_push, f_commit, f_tag, f_push)
    names = [x[0] for x in log]
    if tag_i == 2 or (has_date and pin_date):
        # an invalid --tag value, or --date together with --pin-date: refused before the configuration is even read
        return code is not None and code != 0 and log == []
    import datetime as _dt
    maybe_date = _dt.date(2020, 10, 15) if has_date else None
    if opts is None:
        # contradictory: rejected before anything else happens
        return code is not None and code != 0 and names == ["config.init"]
    old = "1.2.3" if ignore_vcs_tag else "1.2.9"
    want: typ.List[tuple] = [("config.init",)]
    if not ignore_vcs_tag:
        want.append(("vcs_resolve", fetch))
    candidate: typ.Optional[str]
    if has_set_version:
        candidate = "1.4.0"
    else:
        want.append(("incr", old, "MAJOR.MINOR.PATCH", False, True, False, TAG_ARGS[tag_i], False, False, pin_date, maybe_date))
        candidate = "1.3.0" if has_candidate else None
    if candidate is None:
        return code is not None and code != 0 and log == want
    unique = SCOPES[scope] == config.TagScope.BRANCH or has_set_version
    want.append(("gate", "MAJOR.MINOR.PATCH", old, candidate, unique))
    if not gate_ok:
        return code is not None and code != 0 and log == want
    if dry or verbose2:
        want.append(("diff", old, candidate))
    if dry:
        return code is None and log == want
    if code is not None or len(log) != len(want) + 1 or log[:-1] != want:
        return False
    w = log[-1]
    if w[0] != "write":
        return False
    cfg_w = w[1]
    if (cfg_w.commit, cfg_w.tag, cfg_w.push) != opts or cfg_w.current_version != old or cfg_w.tag_scope != SCOPES[scope]:
        return False
    # configured templates are used as written (only the documented {placeholders} are substituted); the OLD/NEW shorthand is a
    # feature of the command line options
    cmsg = f"release {candidate} (was {old})" if cli_msg else f"bump OLD api {old} -> {candidate} (NEW)"
    return w[2] == candidate and w[3] == cmsg and w[4] == "NEW tag " + candidate and w[5] == allow_dirty


def twin_update_never_writes(dry: bool, has_candidate: bool, gate_ok: bool) -> bool:
    """reachability twin (must be refuted): the skeleton harness can reach the writer
    post: _
    """
    return not _reaches_writer(dry, has_candidate, gate_ok)


def _reaches_writer(dry, has_candidate, gate_ok) -> bool:
    hit = []
    saved = (config.init, cli._update_cfg_from_vcs, cli.incr_dispatch, cli._is_valid_version, cli._print_diff, cli._try_update,
             cli._configure_logging)
    config.init = lambda project_path=".", cfg_missing_ok=False: (None, _cfg(False, False, False))
    cli._update_cfg_from_vcs = lambda cfg, fetch: cfg
    cli.incr_dispatch = lambda old, **kw: "1.3.0" if has_candidate else None
    cli._is_valid_version = lambda *a, **k: gate_ok
    cli._print_diff = lambda *a: None
    cli._try_update = lambda *a: hit.append(1)
    cli._configure_logging = lambda verbose=0: None
    try:
        try:
            cli.update.callback(dry=dry)
        except SystemExit:
            pass
    finally:
        (config.init, cli._update_cfg_from_vcs, cli.incr_dispatch, cli._is_valid_version, cli._print_diff, cli._try_update,
         cli._configure_logging) = saved
    return bool(hit)


# ---------------------------------------------------------------------------------------------
# L4: VCS API at argv level: fetch / tag / push only with a remote; get_tags fetches only when asked

class _Bytes:
    def __init__(self, text):
        self.text = text

    def decode(self, enc="utf-8"):
        return self.text


class _SP:
    PIPE = -1
    CalledProcessError = vcs.sp.CalledProcessError

    def __init__(self, remote_text, fail_cmd=None):
        self.calls = []
        self.remote_text = remote_text
        self.fail_cmd = fail_cmd

    def check_output(self, cmd_parts, env=None, stderr=None):
        self.calls.append(list(cmd_parts))
        if self.fail_cmd is not None and list(cmd_parts)[:2] == self.fail_cmd:
            raise self.CalledProcessError(1, cmd_parts)
        if list(cmd_parts)[:2] in (["git", "branch"], ["git", "config"], ["hg", "paths"]):
            return _Bytes(self.remote_text)
        if list(cmd_parts)[:2] in (["git", "tag"], ["hg", "tags"], ["hg", "log"]):
            return _Bytes("1.2.3\n1.2.4\n")
        return _Bytes("")

    def call(self, cmd, stderr=None, stdout=None):
        self.calls.append(list(cmd))
        return 0


MUTATING = {("git", "fetch"), ("git", "add"), ("git", "commit"), ("git", "push"), ("hg", "pull"), ("hg", "add"),
            ("hg", "commit"), ("hg", "tag"), ("hg", "push")}


def _is_mutating(argv) -> bool:
    if tuple(argv[:2]) in MUTATING:
        return True
    # `git tag --list ...` only lists; `git tag <name>` / `git tag --annotate` create a tag
    return argv[:2] == ["git", "tag"] and argv[2:3] != ["--list"]


def get_tags_fetch(fetch: bool, has_remote: bool, scope: int, vcs_present: bool) -> bool:
    """--no-fetch never fetches; a fetch happens only when asked and a remote exists; scope selects the listing command
    pre: 0 <= scope <= 2
    post: _
    """
    stub = _SP("origin-url\n" if has_remote else "")
    saved = (vcs.sp, vcs.os)

    class _OsPath:
        @staticmethod
        def exists(p):
            return vcs_present and p == "." + TOOL

    class _Os:
        path = _OsPath()
        environ = {}

    vcs.sp, vcs.os = stub, _Os()
    try:
        tags = vcs.get_tags(fetch, SCOPES[scope])
    finally:
        vcs.sp, vcs.os = saved
    calls = stub.calls
    if not vcs_present:
        return tags == [] and calls == []
    fetch_argv = ["git", "fetch"] if TOOL == "git" else ["hg", "pull"]
    n_fetch = sum(1 for c in calls if c == fetch_argv)
    if n_fetch != (1 if (fetch and has_remote) else 0):
        return False
    for c in calls:
        if _is_mutating(c) and c != fetch_argv:
            return False
    if TOOL == "git":
        ls = ["git", "tag", "--list", "--merged"] if SCOPES[scope] == config.TagScope.BRANCH else ["git", "tag", "--list"]
    else:
        ls = ["hg", "log", "--branch", ".", "--rev=tag()", "--template={tags}\\n"] if SCOPES[scope] == config.TagScope.BRANCH \
            else ["hg", "tags"]
    return calls[-1] == ls and tags == ["1.2.3", "1.2.4"]


def push_needs_remote(has_remote: bool, with_tag: bool) -> bool:
    """
    post: _
    """
    stub = _SP("origin-url\n" if has_remote else "")
    saved = vcs.sp
    vcs.sp = stub
    try:
        api = vcs.VCSAPI(TOOL)
        if with_tag:
            api.push_tag("1.2.4")
        else:
            api.push()
    finally:
        vcs.sp = saved
    pushes = [c for c in stub.calls if c[:2] == [TOOL, "push"]]
    if not has_remote:
        return pushes == []
    if TOOL == "git":
        want = ["git", "push", "origin-url", "--follow-tags", "1.2.4", "HEAD"] if with_tag else ["git", "push", "origin-url", "HEAD"]
    else:
        want = ["hg", "push", "1.2.4"] if with_tag else ["hg", "push"]
    return pushes == [want]


# ---------------------------------------------------------------------------------------------
# L5: hooks.run

class _Pipe:
    def __enter__(self):
        return self

    def __exit__(self, *a):
        return False

    def readline(self):
        return b''


class _Proc:
    def __init__(self, rc):
        self.returncode = rc
        self.stdout = _Pipe()
        self.stderr = _Pipe()

    def wait(self):
        return self.returncode


def hook_run(a: int, b: int, c: int, d: int, rc: int, ioerror: bool) -> bool:
    """hooks see the old and the new version; a non-zero status or a failure to start stops the update
    pre: 0 <= a <= 99 and 0 <= b <= 99 and 0 <= c <= 99 and 0 <= d <= 99 and -2 <= rc <= 2
    post: _
    """
    old, new = "v" + str(a) + "." + str(b), "v" + str(c) + "." + str(d)
    seen = []

    def popen(path, env=None, stdout=None, stderr=None):
        seen.append((path, env))
        if ioerror:
            raise IOError("cannot start")
        return _Proc(rc)

    class _SPh:
        PIPE = -1
        Popen = staticmethod(popen)

    saved = hooks.sp
    hooks.sp = _SPh()
    exited = False
    try:
        try:
            hooks.run("hook.sh", old, new)
        except SystemExit as ex:
            exited = ex.code != 0
    finally:
        hooks.sp = saved
    if len(seen) != 1:
        return False
    path, env = seen[0]
    if not path.endswith("/hook.sh"):
        return False
    if env.get("BUMPVER_OLD_VERSION") != old or env.get("BUMPVER_NEW_VERSION") != new:
        return False
    return exited == (ioerror or rc != 0)
