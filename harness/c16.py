"""C16 — version comparison is a total order that agrees with PEP 440.

Real code: setuptools_v65_version._cmpkey, _parse_letter_version, Version.__init__/__str__, parse, LegacyVersion, _legacy_cmpkey,
version.parse_version / to_pep440.
Symbolic: epochs, release numbers, pre/post/dev numbers; phases and spellings are enumerated per shard.
"""
import vp.chpatch  # noqa
import json
import os

from bumpver import setuptools_v65_version as sv
from bumpver import version
from vp import pep440ref as ref

P = json.loads(os.environ.get("VP_PARAMS", "{}"))
N1, N2 = P.get("n1", 2), P.get("n2", 2)           # release lengths
PRE1, PRE2 = P.get("pre1"), P.get("pre2")          # None | "a" | "b" | "rc"
HI = P.get("hi", 99)
SHAPE = P.get("shape", {"prefix": "v", "n": 2, "sep1": "-", "spelling": "alpha", "sep2": "", "num": True})

PHASES = [None, "a", "b", "rc"]


def _mk(e, r, n, pre, pre_n, post, dev):
    release = tuple(r[:n])
    pre_t = None if pre is None else (pre, pre_n)
    post_t = None if post < 0 else ("post", post)
    dev_t = None if dev < 0 else ("dev", dev)
    real = sv._cmpkey(e, release, pre_t, post_t, dev_t, None)
    want = ref.key(e, release, pre_t, None if post < 0 else post, None if dev < 0 else dev)
    return real, want


def cmpkey_agrees(e1: int, a1: int, b1: int, c1: int, pn1: int, post1: int, dev1: int,
                  e2: int, a2: int, b2: int, c2: int, pn2: int, post2: int, dev2: int) -> bool:
    """
    pre: 0 <= e1 <= 2 and 0 <= a1 <= HI and 0 <= b1 <= HI and 0 <= c1 <= HI and 0 <= pn1 <= HI and -1 <= post1 <= HI and -1 <= dev1 <= HI
    pre: 0 <= e2 <= 2 and 0 <= a2 <= HI and 0 <= b2 <= HI and 0 <= c2 <= HI and 0 <= pn2 <= HI and -1 <= post2 <= HI and -1 <= dev2 <= HI
    post: _
    """
    k1, w1 = _mk(e1, (a1, b1, c1), N1, PRE1, pn1, post1, dev1)
    k2, w2 = _mk(e2, (a2, b2, c2), N2, PRE2, pn2, post2, dev2)
    return (k1 < k2) == (w1 < w2) and (k1 == k2) == (w1 == w2) and (k1 > k2) == (w1 > w2) \
        and (k1 <= k2) == (w1 <= w2) and (k1 >= k2) == (w1 >= w2)


LETTERS = [None, "a", "b", "c", "rc", "alpha", "beta", "pre", "preview", "post", "rev", "r", "dev", "ALPHA", "Rc", "POST"]
NORMAL = {"a": "a", "alpha": "a", "b": "b", "beta": "b", "c": "rc", "rc": "rc", "pre": "rc", "preview": "rc",
          "post": "post", "rev": "post", "r": "post", "dev": "dev"}


def letter_version(i: int, has_n: bool, n: int) -> bool:
    """normal form of every spelling, with and without a number (PEP 440: implicit 0; a bare number is a post release)
    pre: 0 <= i < len(LETTERS) and 0 <= n <= 9999
    post: _
    """
    letter = LETTERS[i]
    number = str(n) if has_n else None
    got = sv._parse_letter_version(letter, number)
    if letter is None:
        if number is None:
            return got is None
        return got == ("post", n)
    return got == (NORMAL[letter.lower()], n if has_n else 0)


def _shape_text(a, b, c, n):
    s = SHAPE
    rel = [str(a), str(b), str(c)][:s["n"]]
    if s.get("lead0"):
        rel[-1] = "0" + rel[-1]
    text = s["prefix"] + (str(n % 4) + "!" if s.get("epoch") else "") + ".".join(rel)
    if s["spelling"]:
        text += s["sep1"] + s["spelling"] + (s["sep2"] + str(n) if s["num"] else "")
    elif s.get("implicit_post"):
        text += "-" + str(n)
    return text


def version_text(a: int, b: int, c: int, n: int) -> bool:
    """Version(text) for text = prefix + release + separator + spelling + separator + number:
    the parsed segments are the numbers written, str() is canonical and re-parses to the same key
    pre: 0 <= a <= HI and 0 <= b <= HI and 0 <= c <= HI and 0 <= n <= HI
    post: _
    """
    s = SHAPE
    text = _shape_text(a, b, c, n)
    v = sv.Version(text)
    rel = (a, b, c)[:s["n"]]
    if v.release != rel or v.epoch != (n % 4 if s.get("epoch") else 0) or v.local is not None:
        return False
    num = n if s["num"] else 0
    if s["spelling"]:
        want_pre, want_post, want_dev = ref.from_tag(NORMAL[s["spelling"].lower()], num)
    elif s.get("implicit_post"):
        num = n
        want_pre, want_post, want_dev = None, n, None
    else:
        want_pre, want_post, want_dev = None, None, None
    if want_pre is not None and want_pre[0] == "rc":
        pass
    if v.pre != want_pre or v.post != want_post or v.dev != want_dev:
        return False
    canon = str(v)
    v2 = sv.Version(canon)
    if v2._key != v._key or v2._version != v._version:
        return False
    # canonical form: no prefix, short spelling, no separators before pre, '.post' / '.dev'
    want = ".".join(str(x) for x in rel)
    if s.get("epoch") and n % 4 != 0:
        want = str(n % 4) + "!" + want
    if want_pre:
        want += want_pre[0] + str(num)
    if want_post is not None:
        want += ".post" + str(num)
    if want_dev is not None:
        want += ".dev" + str(num)
    return canon == want and version.to_pep440(text) == want


CH = P.get("ch", "q")


def legacy_not_pep440(y: int, q: int, b: int) -> bool:
    """bumpver-style strings such as v2017q1.54321 are not PEP 440: Version() refuses them, parse() falls back to LegacyVersion
    pre: 1000 <= y <= 9999 and 1 <= q <= 4 and 1000 <= b <= 99999
    post: _
    """
    text = "v" + str(y) + CH + str(q) + "." + str(b)
    try:
        sv.Version(text)
    except sv.InvalidVersion:
        return True
    return False


LEGACY_TEXTS = ["v2017q1.54321", "v2017_1.0034", "2017~1", "v201712.0033-final-", "1.2.3.post-x", "foo", "", "v1.2/3", "1.2.3-beta-x",
                "v2020w53.1001", "latest", "1..2"]
PEP_TEXTS = ["0", "0.0.dev0", "1.2.3", "v2020.1001a0", "1!0.1"]


def legacy_below(i: int, j: int, k: int) -> bool:
    """legacy strings (finite table; the solver only enumerates the index combinations): epoch -1, a tuple of str, hence below
    every PEP 440 version and totally ordered among themselves
    pre: 0 <= i < len(LEGACY_TEXTS) and 0 <= j < len(PEP_TEXTS) and 0 <= k < len(LEGACY_TEXTS)
    post: _
    """
    v = version.parse_version(LEGACY_TEXTS[i])
    w = version.parse_version(LEGACY_TEXTS[k])
    pep = version.parse_version(PEP_TEXTS[j])
    if not isinstance(v, sv.LegacyVersion) or isinstance(pep, sv.LegacyVersion):
        return False
    if v._key[0] != -1 or not all(isinstance(p, str) for p in v._key[1]):
        return False
    if not (v < pep and not (pep <= v) and v != pep):
        return False
    # totality / antisymmetry on the legacy side
    return ((v < w) + (v == w) + (v > w)) == 1 and (v <= w) == (not (v > w)) and (v == w) == (v._key == w._key)


def twin_all_equal(a1: int, a2: int) -> bool:
    """reachability twin (must be refuted)
    pre: 0 <= a1 <= 9 and 0 <= a2 <= 9
    post: _
    """
    return sv.Version(str(a1) + ".0")._key == sv.Version(str(a2))._key


SUFFIX_PAIRS = [("", ".post"), (".post", ".post"), ("", ".dev"), ("a", ""), ("rc", ".post"), ("", "-"), (".post", ".dev"), ("b", "rc")]
PAIR = SUFFIX_PAIRS[P.get("pair", 0)]


def _segs(kind, n):
    if kind == "":
        return None, None, None
    if kind in (".post", "-"):
        return None, n, None
    if kind == ".dev":
        return None, None, n
    return (kind, n), None, None


def text_order(a: int, b: int, n: int, m: int) -> bool:
    """two texts with the same release and different segments, parsed by Version(): their order is PEP 440's
    (a post release numbered 0 is still later than the plain release, a dev release earlier, ...)
    pre: 0 <= a <= 9 and 0 <= b <= 9 and 0 <= n <= 9 and 0 <= m <= 9
    post: _
    """
    k1s, k2s = PAIR
    t1 = str(a) + "." + str(b) + (k1s + str(n) if k1s else "")
    t2 = str(a) + "." + str(b) + (k2s + str(m) if k2s else "")
    v1, v2 = sv.Version(t1), sv.Version(t2)
    r1 = ref.key(0, (a, b), *_segs(k1s, n))
    r2 = ref.key(0, (a, b), *_segs(k2s, m))
    return (v1 < v2) == (r1 < r2) and (v1 == v2) == (r1 == r2) and (v1 > v2) == (r1 > r2)
