"""In-memory file system seam (DESIGN §2.4): stands in for bumpver.pathlib.Path and io.open.

Content is str; every open is recorded with (path, mode, newline, encoding).
"""
import typing as typ


def _norm(s):
    """what pathlib does to a relative path spelling: drop './' segments and doubled slashes"""
    if s.startswith("/"):
        return s
    parts = [x for x in s.split("/") if x not in ("", ".")]
    return "/".join(parts) if parts else "."


class MemFS:
    def __init__(self, files: typ.Dict[str, str]):
        self.files = dict(files)
        self.opens: typ.List[tuple] = []
        self.writes: typ.List[typ.Tuple[str, str]] = []
        fs = self

        class _File:
            def __init__(self, path, mode):
                self.path, self.mode = path, mode
                self.buf = []

            def __enter__(self):
                return self

            def __exit__(self, *a):
                self.close()
                return False

            def read(self):
                data = fs.files[self.path]
                if "b" in self.mode:
                    return data.encode("utf-8")
                return data

            def write(self, data):
                self.buf.append(data)

            def close(self):
                if self.buf or "w" in self.mode:
                    new = "".join(self.buf)
                    if "a" in self.mode:
                        new = fs.files.get(self.path, "") + new
                    fs.files[self.path] = new
                    fs.writes.append((self.path, new))
                    self.buf = []
                    self.mode = self.mode.replace("w", "")

        class Path:
            def __init__(self, *parts):
                ps = [str(p) for p in parts] or ["."]
                s = ps[0]
                for p in ps[1:]:
                    s = p if p.startswith("/") else (s.rstrip("/") + "/" + p)
                if s.startswith("./") and len(s) > 2:
                    s = s[2:]
                self._s = s

            def __str__(self):
                return self._s

            def __repr__(self):
                return f"MemPath({self._s!r})"

            def __fspath__(self):
                return self._s

            def __eq__(self, other):
                return isinstance(other, Path) and other._s == self._s

            def __hash__(self):
                return hash(self._s)

            def __lt__(self, other):
                return self._s < other._s

            def __truediv__(self, other):
                if self._s in (".", ""):
                    return Path(str(other))
                return Path(self._s, str(other))

            @property
            def name(self):
                return self._s.rsplit("/", 1)[-1]

            @property
            def suffix(self):
                n = self.name
                i = n.rfind(".")
                return n[i:] if i > 0 else ""

            def exists(self):
                key = self._key()
                return key in fs.files or key in fs.dirs

            def is_file(self):
                return self._key() in fs.files

            def is_dir(self):
                return self._key() in fs.dirs or self._s in (".", "")

            def _key(self):
                s = self._s
                if s.startswith(fs.cwd + "/"):
                    s = s[len(fs.cwd) + 1:]
                return _norm(s)

            def is_absolute(self):
                return self._s.startswith("/")

            def absolute(self):
                if self.is_absolute():
                    return self
                if self._s in (".", ""):
                    return Path(fs.cwd)
                return Path(fs.cwd, self._s)

            def relative_to(self, other):
                o = str(other).rstrip("/") + "/"
                if not self._s.startswith(o):
                    raise ValueError(f"{self._s!r} is not in the subpath of {other!r}")
                return Path(self._s[len(o):])

            @classmethod
            def cwd(cls):
                return Path(fs.cwd)

            def glob(self, pattern):
                import fnmatch
                pattern = _norm(pattern)     # pathlib yields canonical relative paths: './a.txt' and 'a//b' match 'a.txt', 'a/b'
                return [Path(k) for k in sorted(fs.files) if fnmatch.fnmatchcase(k, pattern)]

            def open(self, mode="r", buffering=-1, encoding=None, errors=None, newline=None):
                return fs.open(self, mode=mode, encoding=encoding, newline=newline)

            def read_text(self, encoding=None, errors=None):
                # pathlib semantics: universal newlines (newline=None) translate CRLF and CR to LF
                with fs.open(self, mode="r", encoding=encoding, newline=None) as fobj:
                    return fobj.read().replace("\r\n", "\n").replace("\r", "\n")

            def write_text(self, data, encoding=None, errors=None, newline=None):
                with fs.open(self, mode="w", encoding=encoding, newline=newline) as fobj:
                    fobj.write(data)
                return len(data)

        self.Path = Path
        self._File = _File
        self.cwd = "/proj"
        self.dirs: typ.Set[str] = set()

    def open(self, path, mode="r", buffering=-1, encoding=None, errors=None, newline=None):
        p = str(path)
        if p.startswith(self.cwd + "/"):
            p = p[len(self.cwd) + 1:]
        p = _norm(p)
        self.opens.append((p, mode, newline, encoding))
        if ("r" in mode) and p not in self.files:
            raise FileNotFoundError(p)
        if "r" in mode and "b" not in mode and "+" not in mode:
            import io
            return io.StringIO(self.files[p])   # iteration, readline, context manager: as a real text file
        return self._File(p, mode)

    def snapshot(self):
        return dict(self.files)


class NS:
    """tiny namespace standing in for a module (pl, io, sp, dt ...)"""

    def __init__(self, **kw):
        self.__dict__.update(kw)
