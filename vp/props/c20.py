"""C20 obligations (DESIGN §4.20)."""
from vp.runner import Ob, finding_open
from vp import symcal

INFO = {
    "design_ref": "§4.20",
    "functions": ["v1patterns.compile_pattern", "v1patterns._compile_pattern_re", "v1version.format_version", "v1version.parse_version_info",
                  "v1version._parse_field_values", "v1version.incr", "v1version.cal_info", "v1version._is_cal_gt", "lexid.next_id",
                  "cli.incr_dispatch", "cli._is_valid_version", "config._parse_config", "version.parse_version"],
    "bounds": "documented composites {pycalver}, {semver}, v{year}{month}{build}{release}, {year}{build}{release}, {MAJOR}.{MINOR}.{PATCH}, "
              "{pep440_pycalver}: years 2000..2099, months 1..12, build ids 1000..9998 and zero-padded 3-digit ids, every tag, SemVer "
              "numbers 0..99; incr: today = any day of 2000..2099 (calendar stub), all of --major/--minor/--patch/--tag/--pin-date; "
              "engine selection on 12 patterns (enumeration by index)",
    "outside": "chains of bumps (one step from an arbitrary state is checked; BUILD chains: C17); week/day-of-year legacy parts in incr; "
               "build ids of 5+ digits",
    "stubs": ["v1version.cal_info -> symbolic (year, month) of today in the incr lemma; string seams of incr cut (parse -> state, format -> Rendered) as in C05"],
    "assumptions": [],
}
KEY_PREFIX = "C20:legacy gate accepts a target with trailing text (prefix match)"

L1_PATTERNS = ["{pycalver}", "{semver}", "v{year}{month}{build}{release}", "{year}{build}{release}", "{MAJOR}.{MINOR}.{PATCH}",
               "{pep440_pycalver}"]


def validations(tier):
    return [("calendar stub vs datetime/strftime", lambda: symcal.validate(tier))]


def obligations(tier):
    obs = []
    t = 300 if tier == "quick" else 1200
    bids = [(0, [1000, 9998]), (1, [100, 999])] + ([(0, [10000, 99998])] if tier != "quick" else [])
    for pat in L1_PATTERNS:
        has_bid = "semver" not in pat and "MAJOR" not in pat
        for z, rng in (bids if has_bid else bids[:1]):
            if pat == "{pep440_pycalver}" and z:
                continue
            obs.append(Ob(f"L1.roundtrip[{pat}; bid {'0' * z}{rng[0]}..{rng[1]}]", "c20.py", "roundtrip",
                          {"pattern": pat, "bid_zeros": z, "bid": rng}, timeout=t))
    for pat in ("{pycalver}", "{semver}", "v{year}{month}{build}{release}", "{year}{build}{release}"):
        if "semver" in pat:
            obs.append(Ob(f"L2.incr_greater[{pat}]", "c20.py", "incr_greater", {"pattern": pat}, timeout=t))
            continue
        quiet = {"newtag_i": 0, "tag_i": 2, "f_major": False, "f_minor": False, "f_patch": False}
        for z, rng in bids:
            obs.append(Ob(f"L2.incr_greater[{pat}; bid {'0' * z}{rng[0]}..{rng[1]}, flags off]", "c20.py", "incr_greater",
                          {"pattern": pat, "bid_zeros": z, "bid": rng, "fix": quiet}, timeout=t))
        for nt in ((0, 3) if tier == "quick" else range(7)):
            for fm in (False, True):
                obs.append(Ob(f"L2.incr_greater[{pat}; bid 1998, --tag {nt}, major {fm}, other flags and tags symbolic]", "c20.py",
                              "incr_greater", {"pattern": pat, "bid_zeros": 0, "bid": [1998, 1998], "fix": {"newtag_i": nt, "f_major": fm}},
                              timeout=t))
    for pat, field, part, rng in (("v{year}d{doy}.{bid}{release}", "doy", "doy", [1, 366]),
                                  ("v{year}w{iso_week}.{bid}{release}", "iso_week", "iso_week", [0, 53]),
                                  ("v{year}w{us_week}.{bid}{release}", "us_week", "us_week", [0, 53]),
                                  ("v{year}.{quarter}.{bid}{release}", "quarter", "quarter", [1, 4]),
                                  ("v{year}{month}{dom}.{bid}", "dom", "dom", [1, 31])):
        extra = {"pattern": pat, "cfield": field, "cpart": part, "crange": rng}
        obs.append(Ob(f"L1.roundtrip_calendar_part[{pat}]", "c20.py", "roundtrip_calendar_part", extra, timeout=t))
    for pin in (False, True):
        obs.append(Ob(f"L2.incr_doy[v{{year}}d{{doy}}.{{bid}}{{release}}; pin-date {pin}]", "c20.py", "incr_doy",
                      {"pattern": "v{year}d{doy}.{bid}{release}", "fix": {"pin_date": pin, "bidv": 1998}}, timeout=2 * t,
                      bounds="any two dates 2000..2099"))
    obs.append(Ob("L2.legacy_gate[{semver}]", "c20.py", "legacy_gate", {"hi1": 9 if tier == "quick" else 99}, timeout=t))
    obs.append(Ob("L3.dispatch_consistent", "c20.py", "dispatch_consistent", {}, timeout=t))
    obs.append(Ob("L3.tag_num_refused", "c20.py", "tag_num_refused", {}, timeout=t))
    is_open = finding_open(KEY_PREFIX)
    obs.append(Ob("L4.legacy_gate_full_match", "c20.py", "legacy_gate_full_match", {}, timeout=t,
                  expect="known" if is_open else "confirm", finding=KEY_PREFIX if is_open else None))
    return obs
