"""Probe-level reference model of the README's pattern / bump rules (independent of v2version.py)."""
PARTS = {  # part -> (field, kind)
    'YYYY': 'year_y', 'YY': 'year_y', '0Y': 'year_y', 'GGGG': 'year_g', 'GG': 'year_g', '0G': 'year_g',
    'Q': 'quarter', 'MM': 'month', '0M': 'month', 'DD': 'dom', '0D': 'dom', 'JJJ': 'doy', '00J': 'doy',
    'WW': 'week_w', '0W': 'week_w', 'UU': 'week_u', '0U': 'week_u', 'VV': 'week_v', '0V': 'week_v',
    'MAJOR': 'major', 'MINOR': 'minor', 'PATCH': 'patch', 'BUILD': 'bid', 'BLD': 'bid',
    'TAG': 'tag', 'PYTAG': 'pytag', 'NUM': 'num', 'INC0': 'inc0', 'INC1': 'inc1',
}
NAMES = sorted(PARTS, key=len, reverse=True)
CAL_ORDER = ['year_y', 'year_g', 'quarter', 'month', 'dom', 'doy', 'week_w', 'week_u', 'week_v']
PAD = {'0Y': 2, '0G': 2, '0M': 2, '0D': 2, '00J': 3, '0W': 2, '0U': 2, '0V': 2}
PYTAG = {'final': '', 'alpha': 'a', 'beta': 'b', 'rc': 'rc', 'dev': 'dev', 'post': 'post', 'preview': 'rc'}
RESET = {'major': 0, 'minor': 0, 'patch': 0, 'num': 0, 'inc0': 0, 'inc1': 1}

def parse_pattern(raw):
    """-> nested list of ('lit', text) | ('part', name) | ('opt', [...])"""
    pos = 0
    def seq(closing):
        nonlocal pos
        items, lit = [], ""
        while pos < len(raw):
            c = raw[pos]
            if c == "\\" and pos + 1 < len(raw) and raw[pos + 1] in "[]":
                lit += raw[pos + 1]; pos += 2; continue
            if c == "[":
                if lit: items.append(('lit', lit)); lit = ""
                pos += 1; items.append(('opt', seq(True))); continue
            if c == "]":
                assert closing; pos += 1
                if lit: items.append(('lit', lit))
                return items
            for n in NAMES:
                if raw.startswith(n, pos):
                    if lit: items.append(('lit', lit)); lit = ""
                    items.append(('part', n)); pos += len(n); break
            else:
                lit += c; pos += 1
        assert not closing
        if lit: items.append(('lit', lit))
        return items
    return seq(False)

def fields_in_order(ast):
    out = []
    for kind, x in ast:
        if kind == 'part': out.append(PARTS[x])
        elif kind == 'opt': out.extend(fields_in_order(x))
    return out

def zpad(n, w):
    s = str(n)
    for k in range(1, w):
        if n < 10 ** k:
            return "0" * (w - k) + s
    return s

def fmt_part(name, st):
    v = st[PARTS[name]]
    if name in ('YY', 'GG'): return str(v % 100)
    if name in ('0Y', '0G'): return zpad(v % 100, 2)
    if name in PAD: return zpad(v, PAD[name])
    if name == 'BLD': return str(int(v))
    return str(v)

def is_zero(name, st):
    f = PARTS[name]
    if name in ('MAJOR', 'MINOR', 'PATCH', 'NUM', 'INC0'): return st[f] == 0
    if name == 'TAG': return st['tag'] == 'final'
    if name == 'PYTAG': return st['pytag'] == ''
    return False

def render_items(ast, st):
    """-> (text, all_parts_zero)"""
    text, allzero, anypart = "", True, False
    for kind, x in ast:
        if kind == 'lit': text += x
        elif kind == 'part':
            anypart = True
            text += fmt_part(x, st); allzero = allzero and is_zero(x, st)
        else:
            t, z = render_items(x, st)
            anypart = True
            allzero = allzero and z
            text += "" if z else t
    return text, (allzero and anypart) or (not anypart and True)

def render(ast, st):
    t, z = render_items(ast, st)
    has_part = len(fields_in_order(ast)) > 0
    return "" if (z and has_part) else t

def next_build(bid):
    if int(bid) < 1000:
        bid = str(int(bid) + 1000)
    n = len(bid); v = int(bid) + 1
    s = zpad(v, n) if v < 10 ** n else str(v)
    return s if s[0] == bid[0] else str(v * 11)

def bump(ast, st, cal, major=False, minor=False, patch=False, tag=None, tag_num=False, pin_increments=False, pin_date=False):
    """st: dict of all fields (calendar fields may be None); cal: dict of today's calendar fields. -> new st or None"""
    new = dict(st)
    if not pin_date:
        known = [f for f in CAL_ORDER if st.get(f) is not None and cal.get(f) is not None]
        if not ([st[f] for f in known] > [cal[f] for f in known]):
            for f in CAL_ORDER: new[f] = cal[f]
    cur_tag = new['tag']
    if tag_num and not tag and cur_tag == 'final':
        return None
    if major: new['major'] += 1
    if minor: new['minor'] += 1
    if patch: new['patch'] += 1
    if tag_num: new['num'] += 1
    if tag:
        if tag != new['tag']: new['num'] = 0
        new['tag'] = tag; new['pytag'] = PYTAG[tag]
    if not pin_increments:
        new['inc0'] += 1; new['inc1'] += 1
    new['bid'] = next_build(new['bid'])
    changed = False
    for f in fields_in_order(ast):
        if changed and f in RESET: new[f] = RESET[f]
        elif new[f] != st[f]: changed = True
    return new
