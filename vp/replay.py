"""Replays a counterexample call expression on plain CPython (no CrossHair tracing).

exit/return 1 = violation reproduces (harness returned False or raised), 0 = does not reproduce.
If the harness module defines `replay_<func>` it is used instead of the harness function:
that is where stubs are swapped for the real thing (real datetime, real regex, real git).
"""
import importlib.util
import sys
import traceback


def load(path):
    spec = importlib.util.spec_from_file_location("vp_harness_replay", path)
    mod = importlib.util.module_from_spec(spec)
    sys.modules["vp_harness_replay"] = mod
    spec.loader.exec_module(mod)
    return mod


def replay_call(path, func, call):
    mod = load(path)
    ns = dict(vars(mod))
    target = func
    if ("replay_" + func) in ns:
        target = "replay_" + func
    # the call expression is `func(args...)` as printed by CrossHair
    expr = call.strip()
    assert expr.startswith(func + "("), expr
    expr = target + expr[len(func):]
    try:
        import datetime, collections  # noqa  (names that may occur in reprs)
        ns.setdefault("datetime", datetime)
        ret = eval(expr, ns)
    except BaseException as ex:  # noqa
        if isinstance(ex, (KeyboardInterrupt,)):
            raise
        print(f"REPRODUCED: {expr} raised {type(ex).__name__}: {ex}")
        traceback.print_exc(limit=6)
        return 1
    if ret is False or ret is None and False:
        print(f"REPRODUCED: {expr} returned {ret!r}")
        return 1
    if not ret:
        print(f"REPRODUCED: {expr} returned falsy {ret!r}")
        return 1
    print(f"not reproduced: {expr} returned {ret!r}")
    return 0


if __name__ == "__main__":
    sys.exit(replay_call(sys.argv[1], sys.argv[2], sys.argv[3]))
