"""C14 — calendar versions never run backwards as the date advances.

Real code: v2version.cal_info (on the calendar stub), v2version.format_version, version.parse_version, v2version.is_valid_week_pattern,
v2version.incr / config._validate_version_with_pattern (guard consulted).
Symbolic: the day (year, day of year) — every day 1000-01-01 .. 9999-12-30 and its successor; field tuples for the rendering lemma.
"""
import vp.chpatch  # noqa
import json
import os

from bumpver import v2version, version, config
from vp import symcal
from vp import refmodel as rm

P = json.loads(os.environ.get("VP_PARAMS", "{}"))
COMBO = P.get("combo", ["year_y", "week_w"])
PAT = P.get("pattern", "vYYYY.WW")
YLO, YHI = P.get("ylo", 1000), P.get("yhi", 9998)


def _cal(y, j):
    with symcal.Bound():
        return v2version.cal_info(symcal.SymDate(y, doy=j))


def _next_day(y, j):
    last = j == symcal.days_in_year(y)
    return symcal.ite(last, y + 1, y), symcal.ite(last, 1, j + 1)


def fields_monotone(y: int, j: int) -> bool:
    """for a day and its successor the field tuple COMBO (most significant first) never decreases — through the real cal_info
    pre: YLO <= y <= YHI and 1 <= j <= 366
    post: _
    """
    if j > symcal.days_in_year(y):
        return True
    y2, j2 = _next_day(y, j)
    a, b = _cal(y, j), _cal(y2, j2)
    ta = [getattr(a, f) for f in COMBO]
    tb = [getattr(b, f) for f in COMBO]
    return ta <= tb


def fields_in_domain(y: int, j: int) -> bool:
    """every field cal_info produces lies in the domain the part recognisers and C02/C05 assume
    pre: YLO <= y <= YHI and 1 <= j <= 366
    post: _
    """
    if j > symcal.days_in_year(y):
        return True
    c = _cal(y, j)
    return (c.year_y == y and y - 1 <= c.year_g <= y + 1 and 1 <= c.quarter <= 4 and 1 <= c.month <= 12 and 1 <= c.dom <= 31
            and c.doy == j and 0 <= c.week_w <= 53 and 0 <= c.week_u <= 53 and 1 <= c.week_v <= 53
            and c.quarter == (c.month - 1) // 3 + 1)


BASE = v2version.parse_field_values_to_vinfo({'major': "0"})
G_FIELDS = [rm.PARTS[p] for p in rm.parts_in_order(rm.parse_pattern(PAT))]
DOM = {"year_y": (1000, 9999), "year_g": (1000, 9999), "quarter": (1, 4), "month": (1, 12), "dom": (1, 31), "doy": (1, 366),
       "week_w": (0, 53), "week_u": (0, 53), "week_v": (1, 53)}
TWO_DIGIT = any(p in ("YY", "0Y", "GG", "0G") for p in rm.parts_in_order(rm.parse_pattern(PAT)))
if TWO_DIGIT:
    DOM["year_y"] = DOM["year_g"] = (2001, 2099)
FIRST_DIFF = P.get("first_diff")   # shard: index of the first field in which the two tuples differ (None: unsharded)


def in_dom(vals) -> bool:
    for f, v in zip(G_FIELDS, vals):
        lo, hi = DOM[f]
        if not (lo <= v <= hi):
            return False
    return True


def shard_ok(a, b) -> bool:
    if FIRST_DIFF is None:
        return a <= b
    for i in range(FIRST_DIFF):
        if a[i] != b[i]:
            return False
    if FIRST_DIFF >= len(a):
        return True   # equal tuples
    return a[FIRST_DIFF] < b[FIRST_DIFF]


def _render(vals):
    kw = dict(zip(G_FIELDS, vals))
    return v2version.format_version(BASE._replace(**kw), PAT)


def render_monotone2(a1: int, a2: int, b1: int, b2: int) -> bool:
    """two calendar fields: tuple order implies version order of the renderings
    pre: in_dom([a1, a2]) and in_dom([b1, b2]) and shard_ok([a1, a2], [b1, b2])
    post: _
    """
    return version.parse_version(_render([a1, a2])) <= version.parse_version(_render([b1, b2]))


def render_monotone3(a1: int, a2: int, a3: int, b1: int, b2: int, b3: int) -> bool:
    """three calendar fields
    pre: in_dom([a1, a2, a3]) and in_dom([b1, b2, b3]) and shard_ok([a1, a2, a3], [b1, b2, b3])
    post: _
    """
    return version.parse_version(_render([a1, a2, a3])) <= version.parse_version(_render([b1, b2, b3]))


WEEK_PATTERNS = ["YYYY.WW", "YYYY.0W", "YY.UU", "0Y.0U", "GGGG.VV", "GG.0V", "0G.VV", "YYYY.VV", "YY.0V", "0Y.VV", "GGGG.WW", "GG.0W",
                 "0G.UU", "GGGG.0U", "YYYY.MM", "GGGG.MM.DD", "vYYYYwWW.BUILD", "vGGGGw0V.BLD[-TAG]", "YYYY.VV.PATCH"]


def week_guard(i: int) -> bool:
    """is_valid_week_pattern accepts exactly the coherent pairings: a calendar year with the ISO week, or an ISO year with a
    Monday/Sunday week number, is rejected; incr announces nothing for a rejected pattern and the config loader refuses it
    pre: 0 <= i < len(WEEK_PATTERNS)
    post: _
    """
    pat = WEEK_PATTERNS[i]
    parts = rm.parts_in_order(rm.parse_pattern(pat))
    has_y = any(p in ("YYYY", "YY", "0Y") for p in parts)
    has_g = any(p in ("GGGG", "GG", "0G") for p in parts)
    has_wu = any(p in ("WW", "0W", "UU", "0U") for p in parts)
    has_v = any(p in ("VV", "0V") for p in parts)
    coherent = not ((has_y and has_v) or (has_g and has_wu))
    if v2version.is_valid_week_pattern(pat) != coherent:
        return False
    if not coherent:
        calls = []
        saved = v2version.parse_version_info
        v2version.parse_version_info = lambda *a, **k: calls.append(a) or (_ for _ in ()).throw(version.PatternError("x"))
        try:
            if v2version.incr("2020.10", pat) is not None:
                return False
        finally:
            v2version.parse_version_info = saved
        saved = v2version.parse_version_info
        v2version.parse_version_info = lambda *a, **k: BASE
        try:
            try:
                config._validate_version_with_pattern("2020.10", pat, True)
                return False
            except ValueError:
                pass
        finally:
            v2version.parse_version_info = saved
    return True


def cal_gt_is_date_order(y1: int, j1: int, y2: int, j2: int) -> bool:
    """full-date versions: the real _is_cal_gt on the nine derived fields of two dates is exactly 'first date is later'
    (so a current version in the future keeps its calendar parts, and only then)
    pre: YLO <= y1 <= YHI + 1 and YLO <= y2 <= YHI + 1 and 1 <= j1 <= 366 and 1 <= j2 <= 366
    post: _
    """
    if j1 > symcal.days_in_year(y1) or j2 > symcal.days_in_year(y2):
        return True
    a = version.V2CalendarInfo(**symcal.fields(y1, j1))
    b = version.V2CalendarInfo(**symcal.fields(y2, j2))
    return v2version._is_cal_gt(a, b) == ((y1, j1) > (y2, j2))


def fields_monotone_any(y1: int, j1: int, y2: int, j2: int) -> bool:
    """any two dates d1 <= d2 (not only neighbours): the field tuple COMBO of d1 is <= that of d2, and the real _is_cal_gt between a
    version carrying only these fields and today's full calendar info is False (a version of an earlier day is never 'from the future')
    pre: YLO <= y1 <= YHI + 1 and YLO <= y2 <= YHI + 1 and 1 <= j1 <= 366 and 1 <= j2 <= 366 and (y1, j1) <= (y2, j2)
    post: _
    """
    if j1 > symcal.days_in_year(y1) or j2 > symcal.days_in_year(y2):
        return True
    with symcal.Bound():
        a, b = v2version.cal_info(symcal.SymDate(y1, doy=j1)), v2version.cal_info(symcal.SymDate(y2, doy=j2))
    ta = [getattr(a, f) for f in COMBO]
    tb = [getattr(b, f) for f in COMBO]
    if not ta <= tb:
        return False
    none = {f: None for f in rm.CAL_FIELDS}
    old = BASE._replace(**none)._replace(**{f: getattr(a, f) for f in COMBO})
    if "month" in COMBO and "quarter" not in COMBO:
        old = old._replace(quarter=a.quarter)      # the reader derives the quarter from the month
    return v2version._is_cal_gt(old, b) is False


CAL_PARTS = [p for p in rm.PARTS if rm.PARTS[p] in rm.CAL_FIELDS][P.get("group", 0)::P.get("groups", 1)]


def part_wiring(yy: int, yg: int, q: int, m: int, d: int, j: int, w: int, u: int, v: int) -> bool:
    """every calendar part renders the field it is named after (independent symbolic values per field, so a part wired to the
    wrong field shows): the ISO year parts GGGG/GG/0G the ISO year, VV/0V the ISO week, YYYY/YY/0Y the calendar year, ...
    — this ties the pairings accepted by the week guard to the monotone field pairs of L1
    pre: 2001 <= yy <= 2098 and 2001 <= yg <= 2098 and 1 <= q <= 4 and 1 <= m <= 12 and 1 <= d <= 31 and 1 <= j <= 366
    pre: 0 <= w <= 53 and 0 <= u <= 53 and 1 <= v <= 53
    post: _
    """
    st = {"year_y": yy, "year_g": yg, "quarter": q, "month": m, "dom": d, "doy": j, "week_w": w, "week_u": u, "week_v": v}
    pv = dict(v2version._format_part_values(BASE._replace(**st)))
    for part in CAL_PARTS:
        if pv[part] != rm.fmt_part(part, st):
            return False
    return True
