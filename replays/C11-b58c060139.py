#!/usr/bin/env python
# replay of a counterexample for C11 / L1.dirty_gate; exits 1 when the violation reproduces
import os, sys
os.environ['VP_PARAMS'] = '{"nlines": 2}'
os.environ['VP_REPLAY'] = '1'
sys.path.insert(0, '/verif')
from vp.replay import replay_call
sys.exit(replay_call('/verif/harness/c11.py', 'dirty_gate', "dirty_gate(' ', 'A', 0, 'R', 'C', 0, 1, True)"))
