"""C14 obligations (DESIGN §4.14)."""
from vp.runner import Ob
from vp import symcal
from vp.props import c05 as _c05

INFO = {
    "design_ref": "§4.14",
    "functions": ["v2version.cal_info", "v2version.format_version", "version.parse_version", "v2version.is_valid_week_pattern",
                  "v2version.incr", "config._validate_version_with_pattern", "v2version._is_cal_gt (via C05 calendar stage)"],
    "bounds": "L1: every day 1000-01-01..9998-12-31 and its successor (symbolic year and day of year), one obligation per field combination, "
              "through the real cal_info on the calendar stub; L2: field tuples over their whole domains (years 1000..9999, two-digit "
              "years 2001..2099), one obligation per pattern (three-field patterns split by the first differing field); L3: one witness "
              "per rejected pairing + the guard's verdict on 19 patterns; L4: C05's calendar stage",
    "outside": "patterns whose renderings are not PEP 440 versions (vYYYYwWW: ordered by the legacy key, C16-L4); dates before 1000 / after 9998; patterns outside the listed ~25 (quick 10); the glued unpadded shape YYYYMM is "
               "non-monotone by design and serves as a vacuity witness",
    "stubs": ["calendar stub vp.symcal bound to v2version.dt (validated against datetime/strftime on every run); under CrossHair the stub "
              "builds z3 If-terms instead of forking, so one path covers all 9000 years"],
    "assumptions": [],
}

COHERENT = [["year_y", "month"], ["year_y", "month", "dom"], ["year_y", "doy"], ["year_y", "quarter"], ["year_y", "quarter", "month"],
            ["year_y", "week_w"], ["year_y", "week_u"], ["year_g", "week_v"]]
REJECTED = [["year_y", "week_v"], ["year_g", "week_w"], ["year_g", "week_u"]]

L2_QUICK = ["vYYYY.WW", "YYYY.0U", "GGGG.VV", "GGGG.0V", "YYYY.MM", "YYYY0M", "YY.0M", "YYYY.JJJ", "YYYY00J", "YYYY.Q", "YYYY.MM.DD"]
L2_MORE = ["YYYY0M0D", "YYYY.0M", "YY.MM", "0Y0M", "0Y.0M.0D", "YYYY.0M.0D", "YY.MM.DD", "YYYY.UU", "YYYY.0W", "YY.WW", "0Y0W", "0Y0U", "vGGGG.0V",
           "GG.VV", "0G0V", "GG0V", "YYYY.00J", "YY.JJJ", "0Y00J", "YY.Q", "YYYY.Q.MM", "YYYYQ"]


def validations(tier):
    return [("calendar stub vs datetime/strftime", lambda: symcal.validate(tier))]


def _l2(pat, t):
    from vp import refmodel as rm
    n = len(rm.parts_in_order(rm.parse_pattern(pat)))
    fn = "render_monotone2" if n == 2 else "render_monotone3"
    out = []
    for fd in range(n + 1):
        out.append(Ob(f"L2.{fn}[{pat}; first differing field {fd if fd < n else 'none (equal)'}]", "c14.py", fn,
                      {"pattern": pat, "first_diff": fd}, timeout=t))
    return out


def obligations(tier):
    obs = []
    t = 300 if tier == "quick" else 1200
    for combo in COHERENT:
        obs.append(Ob(f"L1.fields_monotone[{','.join(combo)}]", "c14.py", "fields_monotone", {"combo": combo}, timeout=t,
                      bounds="years 1000..9998 x day of year"))
    for combo in REJECTED:
        obs.append(Ob(f"L3.witness_non_monotone[{','.join(combo)}]", "c14.py", "fields_monotone", {"combo": combo}, expect="refute", timeout=t))
    for combo in COHERENT:
        if combo[0] == "year_g" and tier == "quick":
            continue   # the ISO pair needs more than the quick budget for two arbitrary dates; neighbours are covered by L1
        obs.append(Ob(f"L1b.fields_monotone_any[{','.join(combo)}]", "c14.py", "fields_monotone_any", {"combo": combo}, timeout=t,
                      bounds="any two dates 1000..9999"))
    obs.append(Ob("L4.cal_gt_is_date_order", "c14.py", "cal_gt_is_date_order", {}, timeout=t, bounds="any two dates 1000..9999"))
    obs.append(Ob("L1.fields_in_domain", "c14.py", "fields_in_domain", {}, timeout=t))
    obs.append(Ob("L3.week_guard", "c14.py", "week_guard", {}, timeout=t))
    for grp in range(4):
        obs.append(Ob(f"L3.part_wiring[parts {grp}/4]", "c14.py", "part_wiring", {"group": grp, "groups": 4}, timeout=t,
                      bounds="independent values per calendar field"))
    for pat in (L2_QUICK if tier == "quick" else L2_QUICK + L2_MORE):
        obs += _l2(pat, t)
    obs.append(Ob("L2.witness_glued_unpadded[YYYYMM]", "c14.py", "render_monotone2", {"pattern": "YYYYMM"}, expect="refute", timeout=t))
    # L4b: reading a full-date version back gives that date (a version whose date reads back earlier would move backwards on the
    # next bump): C02's calendar half for the day-of-year and month/day patterns
    from vp.props import c02 as _c02
    obs += [o for o in _c02.obligations("quick") if o.name.startswith("L3.derive_fields")]
    # L4: bump level — calendar never moves backwards (C05 calendar stage of incr)
    obs += [o for o in _c05.obligations(tier) if o.name.startswith("L2a.")]
    return obs
