import chfix, logging; logging.disable(logging.CRITICAL)
import typing as typ
from bumpver import cli, vcs, config, hooks

class FakeVCS:
    name = "git"
    def __init__(self, log, fail_at):
        self.log = log; self.fail_at = fail_at
    def _do(self, what):
        self.log.append(what)
        if self.fail_at == len(self.log):
            import subprocess as sp
            raise sp.CalledProcessError(1, what)
    def add(self, path): self._do("add")
    def commit(self, message): self._do("commit")
    def tag(self, tag_name, tag_message): self._do("tag")
    def push_tag(self, tag_name): self._do("push_tag")
    def push(self): self._do("push")

BASECFG = config.Config("1.2.3", "MAJOR.MINOR.PATCH", "1.2.3", "m", "t", config.TagScope.DEFAULT, "", "", False, False, False, True, {})

def lattice(c_commit: bool, c_tag: bool, c_push: bool, f_commit: typ.Optional[bool], f_tag: typ.Optional[bool], f_push: typ.Optional[bool], pre: bool, post: bool, fail_at: int) -> typ.List[str]:
    """
    pre: (c_commit or not c_tag) and (c_commit or not c_push) and 0 <= fail_at <= 8
    post: ("tag" not in _ and "push" not in _ and "push_tag" not in _) or "commit" in _
    post: ("!" not in _) or _[-1] == "!"
    """
    log: typ.List[str] = []
    cfg = BASECFG._replace(commit=c_commit, tag=c_tag, push=c_push, pre_commit_hook="pre" if pre else "", post_commit_hook="post" if post else "")
    try:
        cfg = cli._parse_vcs_options(cfg, f_commit, f_tag, f_push)
    except ValueError:
        return log
    api = FakeVCS(log, fail_at)
    orig = hooks.run
    hooks.run = lambda path, old, new: log.append("hook:" + path)
    try:
        vcs.commit(cfg, api, {"a"}, "1.2.4", "m", "t")
    except Exception:
        log.append("!")
    finally:
        hooks.run = orig
    return log
