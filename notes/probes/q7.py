import chfix, logging; logging.disable(logging.CRITICAL)
import typing as typ
from bumpver import config

TRUE_SP = ["yes", "true", "1", "on", "True", "YES", "On"]
FALSE_SP = ["no", "false", "0", "off", "False", ""]
OB = typ.Optional[bool]

class FakeCP:
    data: typ.Dict[str, typ.Dict[str, str]] = {}
    def __init__(self): pass
    def read_file(self, buf): pass
    def has_section(self, s): return s in FakeCP.data
    def items(self, s): return list(FakeCP.data[s].items())

def spell(b: bool, i: int) -> str:
    return TRUE_SP[i % len(TRUE_SP)] if b else FALSE_SP[i % len(FALSE_SP)]

def same(commit: bool, tag: OB, push: OB, sp1: int, sp2: int, sp3: int, msg: str, q: int, scope_i: int) -> bool:
    """
    pre: len(msg) <= 3 and 0 <= sp1 <= 6 and 0 <= sp2 <= 6 and 0 <= sp3 <= 6 and 0 <= q <= 2 and 0 <= scope_i <= 2
    pre: all(32 < ord(c) < 127 for c in msg)
    post: _
    """
    Q = ["", '"', "'"][q]
    scope = ["default", "global", "branch"][scope_i]
    ini = {"current_version": Q + "1.2.3" + Q, "version_pattern": Q + "MAJOR.MINOR.PATCH" + Q, "commit_message": Q + msg + Q, "tag_scope": scope, "commit": spell(commit, sp1)}
    tom: typ.Dict[str, typ.Any] = {"current_version": "1.2.3", "version_pattern": "MAJOR.MINOR.PATCH", "commit_message": msg, "tag_scope": scope, "commit": commit}
    if tag is not None:
        ini["tag"] = spell(tag, sp2); tom["tag"] = tag
    if push is not None:
        ini["push"] = spell(push, sp3); tom["push"] = push
    FakeCP.data = {"bumpver": ini}
    orig_cp, orig_toml = config._ConfigParser, config.toml
    config._ConfigParser = FakeCP
    config.toml = type("T", (), {"load": staticmethod(lambda buf: {"bumpver": dict(tom)})})
    try:
        r1 = r2 = None; e1 = e2 = False
        try: r1 = config._parse_config(config._parse_cfg(None))
        except ValueError: e1 = True
        try: r2 = config._parse_config(config._parse_toml(None))
        except ValueError: e2 = True
    finally:
        config._ConfigParser, config.toml = orig_cp, orig_toml
    if e1 or e2:
        return e1 and e2
    return r1 == r2
